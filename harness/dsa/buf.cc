// ares_buf_t driver.  Byte strings travel as arrays of numbers.
#include "dsa.h"

struct BufCtr : Ctr {
  ares_buf_t                *buf = nullptr;
  bool                       isconst = false;
  bool                       filled  = false;  // a call that can give the buffer storage has been made
  std::vector<unsigned char> cdata;  // backing store of a const buffer
  int                        phase = 0;

  static J bytes(const unsigned char *p, size_t n) {
    J a = J::Arr();
    for (size_t k = 0; p && k < n && k < (1u << 20); k++) a.push(J::Int(p[k]));
    return a;
  }
  static std::vector<unsigned char> tobytes(const std::vector<long> &v) {
    std::vector<unsigned char> r;
    for (long x : v) r.push_back((unsigned char)x);
    return r;
  }
  J res(const char *rc, long n, const J &b) { J r = J::Obj(); r.set("rc", J::Str(rc)); r.set("n", J::Int(n)); r.set("b", b); return r; }
  J res(const char *rc, long n) { return res(rc, n, J::Arr()); }
  J st(ares_status_t s, long n = -1) { return res(status_name(s), n, J::Arr()); }

  J create(const J &op, long) override {
    if (op.a[0].s == "create_const") {
      cdata = tobytes(op.at_ints(1));
      buf   = cdata.empty() ? nullptr : ares_buf_create_const(cdata.data(), cdata.size());
      isconst = buf != nullptr;
    }
    if (!buf) { buf = ares_buf_create(); isconst = false; }
    return st(buf ? ARES_SUCCESS : ARES_ENOMEM);
  }
  bool alive() override { return buf != nullptr; }
  J destroy() override {
    ares_buf_destroy(buf);
    buf = nullptr;
    return res("-", -1);
  }
  J exec(const J &op) override {
    const std::string &e = op.a[0].s;
    long               a = op.at_int(1), b = op.at_int(2);
    if (e.rfind("append", 0) == 0) filled = true;
    if (e == "append" || e == "append_str" || e == "append_direct" || e == "begins_with" || e == "consume_until_charset" ||
        e == "consume_charset" || e == "consume_until_seq" || e == "replace" || e == "split") {
      std::vector<unsigned char> x = tobytes(op.at_ints(1));
      if (e == "append") return st(ares_buf_append(buf, x.empty() ? (const unsigned char *)"" : x.data(), x.size()));
      if (e == "append_str") { std::string s(x.begin(), x.end()); return st(ares_buf_append_str(buf, s.c_str())); }
      if (e == "append_direct") {
        size_t         len = x.size();
        unsigned char *p   = ares_buf_append_start(buf, &len);
        if (!p) return res("NULL", -1);
        if (len < x.size()) return res("SHORT", (long)len);
        memcpy(p, x.data(), x.size());
        ares_buf_append_finish(buf, x.size());
        return st(ARES_SUCCESS);
      }
      if (e == "begins_with") return res("-", ares_buf_begins_with(buf, x.data(), x.size()) ? 1 : 0);
      if (e == "consume_until_charset") {
        size_t n = ares_buf_consume_until_charset(buf, x.data(), x.size(), b ? ARES_TRUE : ARES_FALSE);
        return res("-", n == SIZE_MAX ? -1 : (long)n);
      }
      if (e == "consume_charset") return res("-", (long)ares_buf_consume_charset(buf, x.data(), x.size()));
      if (e == "consume_until_seq") {
        size_t n = ares_buf_consume_until_seq(buf, x.data(), x.size(), b ? ARES_TRUE : ARES_FALSE);
        return res("-", n == SIZE_MAX ? -1 : (long)n);
      }
      if (e == "replace") {
        std::vector<unsigned char> y = tobytes(op.at_ints(2));
        return st(ares_buf_replace(buf, x.data(), x.size(), y.empty() ? nullptr : y.data(), y.size()));
      }
      if (e == "split") {
        ares_array_t *arr = nullptr;
        ares_status_t s   = ares_buf_split(buf, x.data(), x.size(), (ares_buf_split_t)b, (size_t)op.at_int(3), &arr);
        if (s != ARES_SUCCESS) return st(s);
        J      parts = J::Arr();
        size_t n     = ares_array_len(arr);
        for (size_t k = 0; k < n; k++) {
          ares_buf_t         **bp  = (ares_buf_t **)ares_array_at(arr, k);
          size_t               len = 0;
          const unsigned char *p   = ares_buf_peek(*bp, &len);
          parts.push(bytes(p, len));
        }
        ares_array_destroy(arr);
        return res(status_name(s), (long)n, parts);
      }
    }
    if (e == "append_byte") return st(ares_buf_append_byte(buf, (unsigned char)a));
    if (e == "append_be16") return st(ares_buf_append_be16(buf, (unsigned short)a));
    if (e == "append_be32") return st(ares_buf_append_be32(buf, ((unsigned int)a << 16) | (unsigned int)b));
    if (e == "append_num_dec") return st(ares_buf_append_num_dec(buf, (size_t)a, (size_t)b));
    if (e == "append_num_hex") return st(ares_buf_append_num_hex(buf, (size_t)a, (size_t)b));
    if (e == "fetch_be16") {
      unsigned short v = 0;
      ares_status_t  s = ares_buf_fetch_be16(buf, &v);
      return st(s, s == ARES_SUCCESS ? (long)v : -1);
    }
    if (e == "fetch_be32") {
      unsigned int  v = 0;
      ares_status_t s = ares_buf_fetch_be32(buf, &v);
      if (s != ARES_SUCCESS) return st(s);
      return res(status_name(s), -1, J::Ints({(long)(v >> 16), (long)(v & 0xffff)}));
    }
    if (e == "fetch_bytes") {
      std::vector<unsigned char> out((size_t)a + 1);
      ares_status_t              s = ares_buf_fetch_bytes(buf, out.data(), (size_t)a);
      return s == ARES_SUCCESS ? res(status_name(s), -1, bytes(out.data(), (size_t)a)) : st(s);
    }
    if (e == "fetch_bytes_dup") {
      unsigned char *out = nullptr;
      ares_status_t  s   = ares_buf_fetch_bytes_dup(buf, (size_t)a, b ? ARES_TRUE : ARES_FALSE, &out);
      if (s != ARES_SUCCESS) return st(s);
      J r = res(status_name(s), -1, bytes(out, (size_t)a));
      ares_free(out);
      return r;
    }
    if (e == "fetch_str_dup") {
      char         *out = nullptr;
      ares_status_t s   = ares_buf_fetch_str_dup(buf, (size_t)a, &out);
      if (s != ARES_SUCCESS) return st(s);
      J r = res(status_name(s), -1, bytes((unsigned char *)out, strlen(out)));
      ares_free(out);
      return r;
    }
    if (e == "fetch_bytes_into_buf") {
      ares_buf_t   *dest = ares_buf_create();
      ares_status_t s    = ares_buf_fetch_bytes_into_buf(buf, dest, (size_t)a);
      size_t        len  = 0;
      const unsigned char *p = ares_buf_peek(dest, &len);
      J r = s == ARES_SUCCESS ? res(status_name(s), -1, bytes(p, len)) : st(s);
      ares_buf_destroy(dest);
      return r;
    }
    if (e == "consume") return st(ares_buf_consume(buf, (size_t)a));
    if (e == "peek_byte") {
      unsigned char v = 0;
      ares_status_t s = ares_buf_peek_byte(buf, &v);
      return st(s, s == ARES_SUCCESS ? (long)v : -1);
    }
    if (e == "len") return res("-", (long)ares_buf_len(buf));
    if (e == "reclaim") { ares_buf_reclaim(buf); return res("-", -1); }
    if (e == "tag") { ares_buf_tag(buf); return res("-", -1); }
    if (e == "tag_rollback") return st(ares_buf_tag_rollback(buf));
    if (e == "tag_clear") return st(ares_buf_tag_clear(buf));
    if (e == "tag_fetch_bytes") {
      std::vector<unsigned char> out((size_t)a + 1);
      size_t                     len = (size_t)a;
      ares_status_t              s   = ares_buf_tag_fetch_bytes(buf, out.data(), &len);
      return s == ARES_SUCCESS ? res(status_name(s), (long)len, bytes(out.data(), len)) : st(s);
    }
    if (e == "tag_fetch_string") {
      std::vector<char> out((size_t)a + 1);
      ares_status_t     s = ares_buf_tag_fetch_string(buf, out.data(), (size_t)a);
      return s == ARES_SUCCESS ? res(status_name(s), -1, bytes((unsigned char *)out.data(), strlen(out.data()))) : st(s);
    }
    if (e == "tag_fetch_strdup") {
      char         *out = nullptr;
      ares_status_t s   = ares_buf_tag_fetch_strdup(buf, &out);
      if (s != ARES_SUCCESS) return st(s);
      J r = res(status_name(s), -1, bytes((unsigned char *)out, strlen(out)));
      ares_free(out);
      return r;
    }
    if (e == "consume_whitespace") return res("-", (long)ares_buf_consume_whitespace(buf, a ? ARES_TRUE : ARES_FALSE));
    if (e == "consume_nonwhitespace") return res("-", (long)ares_buf_consume_nonwhitespace(buf));
    if (e == "consume_line") return res("-", (long)ares_buf_consume_line(buf, a ? ARES_TRUE : ARES_FALSE));
    if (e == "parse_dns_binstr" || e == "parse_dns_str") {
      unsigned char *bin = nullptr;
      size_t         len = 0;
      ares_status_t  s;
      if (e == "parse_dns_binstr") s = ares_buf_parse_dns_binstr(buf, (size_t)a, &bin, &len);
      else { char *str = nullptr; s = ares_buf_parse_dns_str(buf, (size_t)a, &str); bin = (unsigned char *)str; len = str ? strlen(str) : 0; }
      if (s != ARES_SUCCESS) return st(s);
      J r = res(status_name(s), (long)len, bytes(bin, len));
      ares_free(bin);
      return r;
    }
    if (e == "set_position") return st(ares_buf_set_position(buf, (size_t)a));
    if (e == "finish_bin" || e == "finish_str") {
      size_t         len = (size_t)-1;
      unsigned char *p   = e == "finish_bin" ? ares_buf_finish_bin(buf, &len) : (unsigned char *)ares_buf_finish_str(buf, &len);
      if (!p) return res("NULL", -1);
      buf = nullptr;
      J r = res("SUCCESS", (long)len, bytes(p, len));
      ares_free(p);
      return r;
    }
    return J();
  }
  J dump() override {
    J s = J::Obj();
    if (!buf) {
      s.set("len", J::Int(0)); s.set("rem", J::Arr()); s.set("tagged", J::Int(0)); s.set("tlen", J::Int(0));
      s.set("tbytes", J::Arr()); s.set("pos", J::Int(isconst ? 0 : -1));
      return s;
    }
    size_t               len = 0, tlen = 0;
    const unsigned char *p   = ares_buf_peek(buf, &len);
    s.set("len", J::Int((long)ares_buf_len(buf)));
    s.set("rem", bytes(p, len));
    // The tag is read back with ares_buf_tag_fetch after every call.  (With DSA_NO_TAG_READ_ON_EMPTY set,
    // a writable buffer that no append call has touched yet is not read: tagged = -1, "not observed";
    // that was used while ares_buf_tag_fetch computed NULL + 0 there, KF-C19-7, now fixed.)
    if (!isconst && !filled && getenv("DSA_NO_TAG_READ_ON_EMPTY")) {
      s.set("tagged", J::Int(-1)); s.set("tlen", J::Int((long)ares_buf_tag_length(buf))); s.set("tbytes", J::Arr());
    } else {
      const unsigned char *t = ares_buf_tag_fetch(buf, &tlen);
      s.set("tagged", J::Int(t ? 1 : 0));
      s.set("tlen", J::Int((long)ares_buf_tag_length(buf)));
      s.set("tbytes", t ? bytes(t, tlen) : J::Arr());
    }
    s.set("pos", J::Int(isconst ? (long)ares_buf_get_position(buf) : -1));
    return s;
  }

  // ---- random driver
  static long rbyte(Rng &r) {
    static const long alpha[] = {32, 32, 9, 10, 13, 44, 44, 58, 97, 97, 98, 65, 66, 122, 1, 200, 48, 61};
    return alpha[r.below(sizeof alpha / sizeof alpha[0])];
  }
  static J rbytes(Rng &r, long minlen, long maxlen) {
    J    a = J::Arr();
    long n = minlen + r.below(maxlen - minlen + 1);
    for (long k = 0; k < n; k++) a.push(J::Int(rbyte(r)));
    return a;
  }
  static J opb(const char *name, const J &b) { J o = op_make(name); o.push(b); return o; }
  J randcreate(Rng &r, long nkeys) override {
    if (r.chance(30)) return opb("create_const", rbytes(r, 1, 4 * nkeys));
    return op_make("create");
  }
  J randop(Rng &r, long nkeys, long step, long nops) override {
    long   len = (long)ares_buf_len(buf);
    size_t tl  = 0;
    bool   tagged = ares_buf_tag_fetch(buf, &tl) != nullptr;
    long   target = 8 * nkeys;
    if (step == nops - 1 && r.chance(40)) return op_make(r.chance(50) ? "finish_bin" : "finish_str");
    if (len == 0) phase = 0;
    if (len >= target) phase = 1;
    long x = r.below(100);
    if (!isconst && x < (phase == 0 ? 45 : 12)) {
      switch (r.below(10)) {
        case 0: return opb("append", rbytes(r, 0, 3));
        case 1: return opb("append", rbytes(r, 20, 120));
        case 2: { J b = rbytes(r, 1, 9); for (auto &v : b.a) if (v.i == 0) v.i = 97; return opb("append_str", b); }
        case 3: return op_make("append_byte", rbyte(r));
        case 4: return op_make("append_be16", r.below(65536));
        case 5: return op_make("append_be32", r.below(65536), r.below(65536));
        case 6: return opb("append_direct", rbytes(r, 0, 40));
        case 7: return op_make("append_num_dec", r.below(100000), r.below(7));
        case 8: return op_make("append_num_hex", r.below(1000000), r.below(7));
        default: return opb("append", rbytes(r, 1, 12));
      }
    }
    x = r.below(100);
    if (x < 8) return op_make("tag");
    if (x < 14) return op_make("tag_rollback");
    if (x < 19) return op_make("tag_clear");
    // (explicit tag reads on a writable buffer without storage are left to the exhaustive scripts)
    bool canread = true;
    if (x < 23) return canread ? op_make("tag_fetch_bytes", r.below((long)tl + 3)) : op_make("len");
    if (x < 26) return canread ? op_make("tag_fetch_string", r.below((long)tl + 3)) : op_make("len");
    if (x < 28) return canread ? op_make("tag_fetch_strdup") : op_make("peek_byte");
    if (x < 36) return op_make("fetch_bytes", r.below(len > 6 ? 7 : len + 2));
    if (x < 39) return op_make("fetch_bytes_dup", r.below(len > 6 ? 7 : len + 2), r.below(2));
    if (x < 42) return op_make("fetch_str_dup", r.below(len > 4 ? 5 : len + 2));
    if (x < 45) return op_make("fetch_bytes_into_buf", r.below(len > 20 ? 21 : len + 2));
    if (x < 50) return op_make("fetch_be16");
    if (x < 53) return op_make("fetch_be32");
    if (x < 60) return op_make("consume", r.below(len > 9 ? 10 : len + 2));
    if (x < 62) return op_make("peek_byte");
    if (x < 64) return opb("begins_with", rbytes(r, 0, 2));
    if (x < 68) return op_make("consume_whitespace", r.below(2));
    if (x < 71) return op_make("consume_nonwhitespace");
    if (x < 74) return op_make("consume_line", r.below(2));
    if (x < 78) { J o = opb("consume_until_charset", rbytes(r, 0, 3)); o.push(J::Int(r.below(2))); return o; }
    if (x < 81) return opb("consume_charset", rbytes(r, 0, 4));
    if (x < 84) { J o = opb("consume_until_seq", rbytes(r, 0, 2)); o.push(J::Int(r.below(2))); return o; }
    if (x < 87) return op_make(r.chance(50) ? "parse_dns_binstr" : "parse_dns_str", r.below(12));
    if (x < 89) return op_make("reclaim");
    if (x < 92) { J o = opb("replace", rbytes(r, 0, 2)); o.push(rbytes(r, 0, 3)); return o; }
    if (x < 95) {
      static const long fl[] = {0, 1, 2, 3, 4, 6, 12, 14, 16, 32, 48, 50, 54, 62, 33};
      J o = opb("split", rbytes(r, 0, 2));
      o.push(J::Int(fl[r.below(sizeof fl / sizeof fl[0])]));
      o.push(J::Int(r.chance(60) ? 0 : r.below(4)));
      return o;
    }
    if (x < 98 && isconst) {
      // absolute positions only make sense on const buffers; not below the tag
      long pos = (long)ares_buf_get_position(buf), total = pos + len;
      long lo  = tagged ? pos - (long)tl : 0;
      return op_make("set_position", r.chance(5) ? total + 1 : lo + r.below(total - lo + 1));
    }
    return op_make("len");
  }
};

Ctr *make_buf() { return new BufCtr(); }
