"""C03 - write then parse is the identity, including for what goes on the wire.

TLA+ specification: specs/DnsWire/DnsWire.tla (reference Encode/Decode and the
NameWriter model: offset list of whole names, longest-suffix match, 14-bit
pointer field, message-relative offsets), DnsWireGen.tla (record families),
DnsWireTrace.tla (trace validation of bytes the implementation produced).

 1. TLC on the specification: Decode(Encode(rec, layout)) = rec for every
    generated record and layout (RoundTrip), and the NameWriter model only
    emits pointers that decode to the written name (WriterSound).  Sensitivity:
    with the writer AS CODED (pointer masked with 0x3FFF, offsets counted from
    the start of the output buffer) TLC must find a counterexample.
 2. spec -> impl: every abstract record that TLC generated (all RR types, 0-3
    RRs per section, shared suffixes, escapes, 63/255-octet names, padding RRs
    that push names across offsets 16383/16384 and the message across 65535)
    is BUILT through the public setters; ares_dns_write, ares_dns_write_buf_tcp
    into an output buffer that already holds 0/1/2/37 bytes or one earlier
    frame, and the legacy ares_create_query/ares_mkquery are run on it.
    Records OBTAINED FROM THE PARSER (every generated / mutated message that
    ares_dns_parse accepts, flags 0 and all-RAW) are written back as well.
    Harness-observed oracle: length <= 65535, re-parse succeeds and dumps equal
    field by field, writing the re-parsed record gives the same bytes, writing
    twice gives the same bytes.
 3. impl -> spec (trace validation): all bytes that the implementation
    PRODUCED are decoded by the TLA+ reference decoder in TLC and must decode
    to the record that was written (as dumped through the public getters).
"""
import json
import os
import sys

ROOT = os.path.dirname(os.path.dirname(os.path.abspath(__file__)))
sys.path.insert(0, os.path.join(ROOT, "harness", "codec"))
import codeclib as cl  # noqa: E402
import vlib  # noqa: E402

PREFIXES = [0, 1, 2, 37, -1]
ASKEY = {0: "p0", 1: "p1", 2: "p2", 37: "p37", -1: "pframe"}


def run(ctx):
    exe = ctx.build_harness("codec")
    if ctx.replay:
        return replay(ctx, exe)
    quick = ctx.quick
    ctx.cov["rule"] = ("a written message is non-trivial if the record has at least one RR; distinct by the bytes "
                       "the implementation produced (frames at different buffer positions count once)")
    seen = {}

    # 1. the specification on itself
    consts = cl.gen_consts(ctx.tier, ctx.seed, muts=[])
    consts["Emit"] = "FALSE"
    cl.model_check(ctx, "DnsWireGen.tla", "c03_codec_mc", consts, ["RoundTrip", "WriterSound"], timeout=1200)
    cb = cl.gen_consts(ctx.tier, ctx.seed, fams=["big"], muts=[], flags=(0,), stride=1, combo=1)
    cb["Emit"] = "FALSE"
    cl.model_check(ctx, "DnsWireGen.tla", "c03_big_mc", cb, ["RoundTrip", "WriterSound", "SizeLimit", "EdgeExact"],
                   timeout=900)
    r = cl.run_tlc(ctx, "DnsWireGen.tla", os.path.join(cl.SPECDIR, "DnsWireGen_ascoded.cfg"), workers=4, timeout=600,
                   account=False)
    if r.violation != "WriterSound":
        raise vlib.MachineryError("the as-coded NameWriter model did not violate WriterSound (model not sensitive)")
    ctx.notes["ascoded_writer_counterexample_found"] = True

    # 2a. build direction
    vecs = cl.main_vectors(ctx)
    big = cl.big_vectors(ctx)
    bases = cl.base_records(vecs) + cl.base_records(big)
    model = {}      # (fam, idx) -> writer-model predictions
    for v in vecs + big:
        if v["mut"]["k"] == "none" and v["lid"] == 7:
            model[(v["fam"], v["idx"])] = {"correct": v["nb"], "ascoded": v.get("ascoded"), "encinfo": v.get("encinfo")}
    bv = [{"id": "b|" + v["id"], "op": "build", "rec": cl.ref_to_canon(v["rec"]), "prefixes": PREFIXES} for v in bases]
    # legacy builders: names of the pool as presentation strings, with and without trailing dot
    mq = []
    for v in bases:
        if v["fam"] != "names":
            continue
        nm = v["rec"]["qd"][0]["name"]
        for j, (dot, cls, typ, rd, udp) in enumerate([(0, 1, 1, 1, 0), (1, 1, 28, 0, 1232), (0, 3, 16, 1, 65535),
                                                      (0, 255, 255, 0, 0)]):
            s = nm + ([46] if dot and nm else [])
            mq.append({"id": "q|%s|%d" % (v["id"], j), "op": "mkquery", "name": cl.hx(s), "class": cls, "type": typ,
                       "qid": 4000 + j, "rd": rd, "udp": udp, "_labels_from": nm})
    hv = bv + [{k: x for k, x in m.items() if not k.startswith("_")} for m in mq]
    bres, _ = cl.run_harness(ctx, exe, "c03_build", hv, timeout=1200, procs=2)
    for vid, sig, text in cl.confirmed_safety(ctx, exe, hv, bres):
        _once(ctx, seen, "write." + sig, text, None)

    events = []
    stats = {"records": len(bases), "built": 0, "setter_refused": 0, "written": 0, "write_refused": 0,
             "model_bytes_equal": 0, "model_bytes_differ": 0, "tcp_frames": 0, "mkquery": 0, "from_parser_written": 0,
             "from_parser_write_refused": 0}
    produced = set()
    info = {}
    for v in bases:
        _judge_build(ctx, seen, "b|" + v["id"], bres.get("b|" + v["id"]), model.get((v["fam"], v["idx"]), {}),
                     events, info, stats, produced)
    for m in mq:
        r = bres.get(m["id"])
        if r is None or r.get("crash") or r.get("leak"):
            continue
        for api in ("cq", "mk"):
            a = r.get(api)
            if not a:
                continue
            if (a["st"] == 0) == bool(a["null"]):
                _once(ctx, seen, "create_query.status_result_inconsistent", "%s %s: %s" % (m["id"], api, a), None)
            if a["st"] != 0:
                continue
            stats["mkquery"] += 1
            udp = m["udp"] if api == "cq" else 0
            rec = {"id": m["qid"], "qr": 0, "opcode": 0, "aa": 0, "tc": 0, "rd": 1 if m["rd"] else 0, "ra": 0, "z": 0,
                   "ad": 0, "cd": 0, "rcode": 0,
                   "qd": [{"name": cl.unhx(m["name"]), "qtype": m["type"], "qclass": m["class"]}], "an": [], "ns": [],
                   "ar": ([{"name": [], "type": 41, "class": udp, "ttl": [0, 0],
                            "rd": {"k": "OPT", "udp_size": udp, "version": 0, "flags": 0, "options": []}}] if udp else [])}
            events.append({"id": "%s|%s" % (m["id"], api), "e": "wire", "nb": cl.unhx(a["hex"]), "fl": 0, "rec": rec,
                           "names": "pres"})

    # trace validation of the build direction by the TLA+ reference decoder
    nevents = len(events)
    bad = cl.validate_trace(ctx, "c03_wire_build", events, timeout=1500)
    _report_trace(ctx, seen, bad, info)
    nbad = len(bad)
    sample_events = events[:4000:900]
    selftest_event = next((e for e in events if len(e["nb"]) < 2000), None)

    # 2b. records obtained from the parser, in slices (memory), each slice validated by TLC
    pflags = [0, 63]
    allv = [(v, pflags) for v in vecs] + [(v, [0]) for v in big]   # large messages: flags 0 only (the writer-model
    CH = 40000                                                      # prediction needs the interpreted record)
    for a in range(0, len(allv), CH):
        part = allv[a:a + CH]
        pv = [{"id": v["id"], "op": "parse", "hex": cl.hx(v["nb"]), "flags": fl, "wb": fl, "names": 0, "legacy": 0}
              for v, fl in part]
        pres, _ = cl.run_harness(ctx, exe, "c03_parse_%d" % (a // CH), pv, timeout=1500)
        for vid, sig, text in cl.confirmed_safety(ctx, exe, pv, pres):
            _once(ctx, seen, "write." + sig, text, None)
        events, info = [], {}
        for v, _fl in part:
            r = pres.get(v["id"])
            if r is None or "p" not in r:
                continue
            for p in r["p"]:
                if p["st"] != cl.ARES_SUCCESS or "wb" not in p:
                    continue
                w = p["wb"]
                if w["st"] != cl.ARES_SUCCESS:
                    stats["from_parser_write_refused"] += 1
                    continue
                stats["from_parser_written"] += 1
                eid = "p|%s|fl%d" % (v["id"], p["fl"])
                w = dict(w)
                w["orig"] = p["rec"]
                # the writer-model prediction applies when the parsed message is an unmutated generated record
                md = model.get((v["fam"], v["idx"]), {}) if v["mut"]["k"] == "none" and p["fl"] == 0 else {}
                info[eid] = (v, w, md, None)
                _harness_oracle(ctx, seen, eid, v, w, md)
                if p["rec"]["an"] or p["rec"]["ns"] or p["rec"]["ar"]:
                    produced.add(w["hex"])
                try:
                    exp = cl.canon_to_ref(p["rec"])
                except ValueError:
                    continue
                refk = [d["k"] for d in v["dec"] if d["fl"] == p["fl"]]
                if refk and refk[0] == "Malformed":
                    # accepted although the reference calls the source malformed (e.g. SvcParams out of order):
                    # the implementation's own round trip was checked above; the reference has no reading of it
                    stats["from_parser_source_malformed_not_traced"] = \
                        stats.get("from_parser_source_malformed_not_traced", 0) + 1
                    continue
                if w["len"] <= 65535:
                    events.append({"id": eid, "e": "wire", "nb": cl.unhx(w["hex"]), "fl": p["fl"], "rec": exp,
                                   "names": "pres"})
        bad = cl.validate_trace(ctx, "c03_wire_parsed_%d" % (a // CH), events, timeout=1500)
        _report_trace(ctx, seen, bad, info)
        nevents += len(events)
        nbad += len(bad)
        del pres, pv, events, info
    events = sample_events
    ctx.cov["traces_validated_against_impl"] = nevents - nbad
    ctx.cov["evaluations"] = nevents + stats["built"] + stats["from_parser_written"]
    ctx.cov["distinct_nontrivial"] = len(produced)
    ctx.notes["c03"] = stats
    ctx.log("build/write: %s" % stats)
    if selftest_event:
        cl.corrupted_trace_selftest(ctx, "c03", selftest_event)
    for e in events:
        ctx.sample({"event": e["id"], "kind": e["e"], "bytes": cl.hx(e["nb"])[:100]})
    ctx.assumptions += [
        "field value domains are small symbolic sets plus boundary values; %d abstract records are built through the "
        "setters, %d parser-obtained records are written back" % (stats["records"], stats["from_parser_written"]),
        "large messages (padding RR of 16346..65000 octets, total > 65535, RDATA > 65535) are decoded byte-exactly by "
        "TLC like the small ones (the padding RDATA is one opaque slice); nothing is modelled symbolically",
        "the record a write is compared with is the dump of that record through the public getters (setters that "
        "refuse or normalise a value are not judged here)",
        "ares_dns_write_buf_tcp is an internal entry point reached through src/lib/record/ares_dns_private.h; "
        "the connection-level framing of the simulator (cares_sim) is not part of this check",
    ]


def _judge_build(ctx, seen, eid, r, md, events, info, stats, produced):
    """one record built through the setters: harness-observed oracle + trace events for TLC"""
    if r is None or r.get("crash") or r.get("leak"):
        return
    if not r.get("built"):
        stats["setter_refused"] += 1
        return
    stats["built"] += 1
    w = r["w"]
    if w["st"] != cl.ARES_SUCCESS:
        stats["write_refused"] += 1
        if w.get("null") == 0:
            _once(ctx, seen, "write.failure_with_result", "record %s: status %d but a buffer was returned" %
                  (eid, w["st"]), None)
        return
    stats["written"] += 1
    orig = w["orig"]
    info[eid] = (None, w, md, None)
    if md.get("correct") is not None:
        stats["model_bytes_equal" if cl.hx(md["correct"]) == w["hex"] else "model_bytes_differ"] += 1
    _harness_oracle(ctx, seen, eid, None, w, md)
    if orig["an"] or orig["ns"] or orig["ar"]:
        produced.add(w["hex"])
    if w["len"] <= 65535:
        events.append({"id": eid, "e": "wire", "nb": cl.unhx(w["hex"]), "fl": 0, "rec": cl.canon_to_ref(orig),
                       "names": "pres"})
    for t in r["tcp"]:
        if t["st"] != cl.ARES_SUCCESS:
            continue
        stats["tcp_frames"] += 1
        tid = "%s|tcp%d" % (eid, t["prefix"])
        info[tid] = (None, w, md, t)
        if not t.get("prefix_intact"):
            _once(ctx, seen, "write_buf_tcp.earlier_buffer_content_modified",
                  "record %s prefix %d: bytes already in the buffer changed" % (eid, t["prefix"]), None)
        if len(t["frame"]) // 2 - 2 <= 65535:
            events.append({"id": tid, "e": "frame", "nb": cl.unhx(t["frame"]), "fl": 0,
                           "rec": cl.canon_to_ref(orig), "names": "pres"})


def _report_trace(ctx, seen, bad, info):
    for eid, verdict in sorted(bad.items()):
        v, w, md, t = info.get(eid, (None, None, {}, None))
        sig = _classify_trace(eid, verdict, v, w, md, t)
        if sig is None:
            continue
        _once(ctx, seen, sig, "event %s: the reference decoder says %s about bytes the implementation produced" %
              (eid, verdict), _rp(eid, w, md) if w else None)


def replay(ctx, exe):
    """./check C03 --replay file: rebuild one recorded record, write it everywhere, validate the bytes"""
    j = json.load(open(ctx.replay))
    seen, events, info, produced = {}, [], {}, set()
    stats = {"built": 0, "setter_refused": 0, "written": 0, "write_refused": 0, "model_bytes_equal": 0,
             "model_bytes_differ": 0, "tcp_frames": 0}
    md = {}
    if j.get("model"):
        m = j["model"]
        md = {"correct": cl.unhx(m["correct"]) if m.get("correct") is not None else None,
              "ascoded": {k: cl.unhx(x) for k, x in m["ascoded"].items()} if m.get("ascoded") else None,
              "encinfo": m.get("encinfo")}
    res, _ = cl.run_harness(ctx, exe, "replay", [{"id": "r", "op": "build", "rec": j["rec"], "prefixes": PREFIXES}])
    for vid, sig, text in cl.safety_findings(res):
        ctx.violation("write." + sig, text)
    _judge_build(ctx, seen, "r", res.get("r"), md, events, info, stats, produced)
    bad = cl.validate_trace(ctx, "replay", events)
    _report_trace(ctx, seen, bad, info)
    ctx.log("replay: %s, %d events, %d unexplained" % (stats, len(events), len(bad)))


def _harness_oracle(ctx, seen, eid, v, w, md):
    """length, write twice, re-parse equality, re-write equality as observed by the harness"""
    orig = w["orig"]
    if w["len"] > 65535:
        _once(ctx, seen, "write.message_longer_than_65535_accepted",
              "%s: ares_dns_write returned %d bytes" % (eid, w["len"]), _rp(eid, w, md))
        return
    if not w.get("w2_eq"):
        _once(ctx, seen, "write.second_write_differs", "%s: writing the same record twice gave different bytes" % eid,
              _rp(eid, w, md))
    if w.get("rp_st") != cl.ARES_SUCCESS:
        _once(ctx, seen, _classify_reparse(eid, w, md, None), "%s: written bytes do not parse back (status %s)" %
              (eid, w.get("rp_st")), _rp(eid, w, md))
        return
    if not w.get("rp_eq"):
        d = cl.diff_canon(orig, w["rp"]) if "rp" in w else []
        _once(ctx, seen, _classify_reparse(eid, w, md, d), "%s: re-parsed record differs: %s" %
              (eid, [(x[0], str(x[1])[:80], str(x[2])[:80]) for x in d[:4]]), _rp(eid, w, md))
        return
    if not w.get("rw_eq"):
        _once(ctx, seen, "write.rewrite_of_reparsed_record_differs", "%s: second serialisation differs" % eid,
              _rp(eid, w, md))


def _classify_reparse(eid, w, md, diffs):
    orig = w["orig"]
    if len(orig["qd"]) != 1 and w.get("rp_st") != cl.ARES_SUCCESS:
        return "write.qdcount_%d.accepted_by_write_rejected_by_parse" % len(orig["qd"])
    if diffs and [x[0] for x in diffs] == ["rcode"] and diffs[0][1] > 15 and diffs[0][2] == 2 and \
            not any(rr["type"] == 41 for rr in orig["ar"]):
        return "write.rcode_gt_15_without_opt.written_as_servfail"
    enc = md.get("encinfo") or {}
    if enc and not enc.get("rdlen_ok", True):
        return "write.rdlength_gt_65535_masked"
    asc = md.get("ascoded") or {}
    if asc and md.get("correct") is not None and cl.hx(asc["plain"]) == w["hex"] and asc["plain"] != md["correct"]:
        return "write.pointer_target_ge_16384_masked"
    if diffs and all(x[0].endswith(".name") or x[0].split(".")[-1].isdigit() for x in diffs) and \
            all(isinstance(x[1], str) and isinstance(x[2], str) and len(x[1]) // 2 > 511 and
                bytes.fromhex(x[1])[:511].startswith(bytes.fromhex(x[2])) for x in diffs):
        return "write.name_presentation_longer_than_511_chars.silently_truncated"
    if diffs:
        return "write.reparse_differs." + diffs[0][0]
    if w.get("len") == 65535:       # the largest message there is (DnsWire!MaxMsgLen)
        return "write.reparse_fails.st%s.message_of_exactly_65535_octets" % w.get("rp_st")
    return "write.reparse_fails.st%s" % w.get("rp_st")


def _classify_trace(eid, verdict, v, w, md, t):
    kind = verdict.split(":")[0]
    if w is None:
        return "create_query.reference_%s" % kind
    if t is not None:
        if w.get("rp_st") != cl.ARES_SUCCESS or not w.get("rp_eq"):
            return None      # the plain write of this record is already reported; the frame inherits that defect
        asc = md.get("ascoded") or {}
        key = ASKEY.get(t["prefix"])
        if asc and key and cl.hx(asc[key]) == t["frame"][4:] and asc[key] != md.get("correct"):
            return "write_buf_tcp.compression_offsets_relative_to_buffer"
        return "write_buf_tcp.frame.reference_%s" % kind
    # plain writes: the harness oracle already classified what it saw
    if w["len"] > 65535:
        return "write.message_longer_than_65535_accepted"
    if w.get("rp_st") != cl.ARES_SUCCESS or not w.get("rp_eq"):
        d = cl.diff_canon(w["orig"], w["rp"]) if "rp" in w else None
        return _classify_reparse(eid, w, md, d)
    return "write.symmetric_codec_error.reference_%s" % kind


def _rp(eid, w, md=None):
    md = md or {}
    model = None
    if md.get("correct") is not None or md.get("ascoded"):
        model = {"correct": cl.hx(md["correct"]) if md.get("correct") is not None else None,
                 "ascoded": {k: cl.hx(x) for k, x in md["ascoded"].items()} if md.get("ascoded") else None,
                 "encinfo": md.get("encinfo")}
    return json.dumps({"event": eid, "op": "build", "rec": w["orig"], "written": w.get("hex"), "model": model})


def _once(ctx, seen, sig, text, replay):
    n = seen.get(sig, 0)
    seen[sig] = n + 1
    ctx.notes.setdefault("finding_counts", {})[sig] = n + 1
    if n == 0:
        ctx.violation(sig, text, replay_content=replay)
