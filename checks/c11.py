"""C11: concurrent use of one channel is race-free and deadlock-free.

1. TLC on specs/Threads/Threads.tla (contract: recursive channel lock, cond_empty, event
   mutex, wake handle, update queue, event loop phases, client operations, reload
   thread, destroy): MutualExclusion, LockOrder, NoLostWakeup, WaitEmptySound,
   OneReload, AllJoined, ExactlyOnce, NoOutwait, deadlock check; liveness Completes and
   WaitReturns.  specs/Threads/Reinit.tla (ares_reinit statement by statement):
   Repaired passes, AsCoded must show the race / leak / use-after-free (sensitivity).
2. spec -> impl: TLC samples behaviours of Threads.tla (-simulate); the history of
   operation starts (thread, operation, event-loop phase, operations already returned)
   is replayed by harness/thr under ThreadSanitizer with H4 phase gates.
3. impl -> spec: the H3 sync-event traces of those runs and of seeded random stress are
   validated by TLC against ThreadsTrace.tla (lock discipline, lost wake-up,
   wait-empty soundness, exactly one callback, thread handles).  ThreadSanitizer is the
   observation channel for data races / thread leaks on the same executions.
"""
import json
import os
import random

import thrlib
import vlib

BACKENDS = ["epoll", "poll", "select"]


# ------------------------------------------------------------------------- models
def models(ctx):
    q = ctx.quick
    r = thrlib.model_check(ctx, "Threads.tla", "Threads_mcq.cfg" if q else "Threads_mc.cfg", workers=8,
                           timeout=300 if q else 1700, coverage=q)
    if q and r.coverage:
        dead = [a for a, (_, fired) in r.coverage.items() if fired == 0]
        if dead:
            raise vlib.MachineryError("Threads.tla: actions never taken (vacuity): %s" % dead)
    thrlib.model_check(ctx, "Threads.tla", "Threads_liveq.cfg" if q else "Threads_live.cfg", workers=8, timeout=1500)
    thrlib.model_check(ctx, "Reinit.tla", "Reinit_Repaired_ab.cfg", workers=2, timeout=120)
    thrlib.model_check(ctx, "Reinit.tla", "Reinit_Repaired_ev.cfg", workers=2, timeout=120)
    cex = {}
    for cfg, inv in (("Reinit_AsCoded_race.cfg", "NoRace"), ("Reinit_AsCoded_lockset.cfg", "LocksetOK"),
                     ("Reinit_AsCoded_leak.cfg", "NoLeak"), ("Reinit_AsCoded_unjoined.cfg", "AllJoined"),
                     ("Reinit_AsCoded_uaf.cfg", "NoUseAfterFree")):
        r = thrlib.model_check(ctx, "Reinit.tla", cfg, expect=inv, workers=1, timeout=120)
        cex[inv] = thrlib.cex_actions(r)
    ctx.notes["reinit_counterexamples"] = cex
    ctx.sample({"model": "Reinit AsCoded", "violates": "NoLeak", "history": cex["NoLeak"],
                "replayed_as": "verif_thr d11 --gated 1 (caller A held between pthread_create and the handle store)"})


# ------------------------------------------------------------------------- schedules
def gen_schedules(ctx, want):
    """Behaviours of Threads.tla sampled by TLC; history of operation starts as JSON."""
    r = thrlib.tlc("Threads.tla", "Threads_gen.cfg", workers=4, simulate=150 if ctx.quick else 1500, depth=160,
                   seed=ctx.seed, timeout=300)
    if r.error or r.rc != 0:
        raise vlib.MachineryError("schedule generation failed:\n%s" % r.out[-3000:])
    seen = {}
    for ln in r.out.splitlines():
        if ln.startswith('"{') and "sched" in ln:
            j = json.loads(json.loads(ln))
            seen[thrlib.h(j)] = j["sched"]
    ctx.notes["schedules_generated"] = len(seen)
    keys = sorted(seen)
    rnd = random.Random(ctx.seed)
    rnd.shuffle(keys)
    # stratify: prefer schedules whose operations start at many different phases / overlap
    def score(s):
        return (len({x["ph"] for x in s}) + len({x["op"] for x in s}) + sum(1 for i, x in enumerate(s) if len(x["after"]) < i))
    keys.sort(key=lambda k: -score(seen[k]))
    top = keys[:want * 2]
    rnd.shuffle(top)
    chosen = [seen[k] for k in top[:want]]
    return chosen, len(seen)


def to_harness(sched, idx, backend):
    steps = []
    for i, x in enumerate(sched):
        op = x["op"]
        arg = 0
        if op == "send":
            op = "senda" if (idx + i) % 3 == 0 else "send"
        elif op == "wait":
            arg = -1
        elif op == "waitt":
            op, arg = "wait", 30
        elif op == "setsrv":
            arg = (idx + i) % 2
        ph = x["ph"]
        if ph == "wait" and (idx + i) % 2:
            ph = "inwait"
        steps.append({"t": int(x["t"][1:]), "op": op, "arg": arg, "ph": ph, "after": [a - 1 for a in x["after"]]})
    return {"label": "sched%d.%s" % (idx, backend), "backend": backend, "clients": 2, "steps": steps}


def concurrent_reinit(steps):
    """two different threads call reinit and the second did not wait for the first to return"""
    r = [(i, s) for i, s in enumerate(steps) if s["op"] == "reinit"]
    return len({s["t"] for _, s in r}) >= 2


def run_sched_batch(exe, ctx, batch, name):
    f = os.path.join(ctx.out, name + ".json")
    json.dump(batch, open(f, "w"))
    res = thrlib.run_harness(exe, ["sched", "--file", f], os.path.join(ctx.out, name), timeout=120 + 15 * len(batch), tsan=True)
    return res


# ------------------------------------------------------------------------- verdict helpers
class Verdicts:
    def __init__(self, ctx, exe):
        self.ctx = ctx
        self.exe = exe
        self.tsan_seen = {}
        self.benign = {}

    def tsan(self, res, rerun, suffix_for):
        """Report ThreadSanitizer findings of one harness process.  `rerun()` re-executes the
        same scenario(s) and returns a new result dict: only reproduced reports count."""
        reps = thrlib.parse_tsan(res["stderr"])
        real = []
        for r in reps:
            if r["benign"]:
                self.benign[r["benign"]] = self.benign.get(r["benign"], 0) + 1
            else:
                real.append(r)
        if not real:
            return
        again = None
        for r in real:
            sig = r["sig"] + suffix_for(r["label"])
            if sig in self.tsan_seen:
                continue
            if again is None:
                again = set()
                for k in range(3):
                    again |= {x["sig"] for x in thrlib.parse_tsan(rerun()["stderr"]) if not x["benign"]}
            if r["sig"] not in again:
                self.ctx.notes.setdefault("unreproduced", []).append({"tsan": r["sig"], "label": r["label"]})
                continue
            self.tsan_seen[sig] = r["label"]
            self.ctx.violation(sig, "ThreadSanitizer (%s) in run %s:\n%s" % (r["kind"], r["label"], r["text"][:2500]),
                               replay_content=json.dumps({"cmd": " ".join(res["args"]), "label": r["label"], "report": r["text"]}))

    def trace(self, viols, cat, suffix_for, confirm=None):
        seen = set()
        ignored = 0
        for (rule, label, line, ctxt) in viols:
            if rule.startswith("c07.outwait"):
                ignored += 1          # decided by C07_THR (known there); not a C11 rule
                continue
            sig = "c11.trace.%s%s" % (rule, suffix_for(label))
            if sig in seen:
                continue
            seen.add(sig)
            if confirm is not None and not confirm(rule, label):
                self.ctx.notes.setdefault("unreproduced", []).append({"trace_rule": rule, "label": label})
                continue
            self.ctx.violation(sig, "trace rule '%s' broken in run %s at line %d of %s:\n%s" % (rule, label, line, cat, ctxt),
                               replay_content=thrlib.run_trace_text(cat, label))
        if ignored:
            self.ctx.notes["c07_outwait_events_seen_in_c11_traces"] = self.ctx.notes.get("c07_outwait_events_seen_in_c11_traces", 0) + ignored


def crash_check(ctx, res, rerun, sig):
    """A harness process that died (signal, sanitizer abort) is a violation if it dies again."""
    if not res.get("crashed"):
        return False
    r2 = rerun()
    if r2.get("crashed"):
        ctx.violation(sig, "harness process died twice (rc=%s, %s): %s\n%s" % (res["rc"], r2["rc"], " ".join(res["args"]), res["stderr"][-2500:]),
                      replay_content=json.dumps({"cmd": " ".join(res["args"]), "stderr": res["stderr"][-4000:]}))
    else:
        ctx.notes.setdefault("unreproduced", []).append({"crash": " ".join(res["args"])})
    return True


def hang_check(ctx, res, what):
    for j in res["results"]:
        if j.get("result") == "hang":
            return j
    if res["rc"] == 124:
        return {"result": "hang", "label": what, "timeout": True}
    return None


def replay(ctx, exe):
    """--replay: an ndjson trace (re-validated by TLC), a schedule {"label","backend","steps"...}
    (re-executed under TSan), or {"cmd": "... d11|stress ..."} (re-executed)."""
    txt = open(ctx.replay).read()
    files = []
    res = None
    if txt.lstrip().startswith('{"k":'):
        files = [ctx.replay]
    else:
        j = json.loads(txt)
        if "steps" in j:
            res = run_sched_batch(exe, ctx, [j], "replay")
        else:
            a = j.get("cmd", "").split()
            i = [k for k, x in enumerate(a) if x in ("d11", "stress", "sched", "c07")]
            if not i:
                raise vlib.MachineryError("replay file has neither a trace, a schedule nor a harness command")
            args = [x for x in a[i[0]:] if True]
            # drop the bookkeeping options of the original run
            clean = []
            skip = False
            for x in args:
                if skip:
                    skip = False
                    continue
                if x in ("--trace", "--tmp"):
                    skip = True
                    continue
                clean.append(x)
            res = thrlib.run_harness(exe, clean, os.path.join(ctx.out, "replay"), timeout=120, tsan=True)
        files = [res["trace"]]
        for r in thrlib.parse_tsan(res["stderr"]):
            if not r["benign"]:
                ctx.violation(r["sig"] + (".concurrent_reinit" if "reinit" in txt else ""), r["text"][:2500], replay_path=ctx.replay)
    n, viols = thrlib.validate_traces(ctx, files, "replay")
    ctx.cov["traces_validated_against_impl"] += n
    ctx.cov["evaluations"] += n
    for (rule, label, line, ctxt) in viols:
        if rule.startswith("c07.outwait"):
            continue
        conc = ".concurrent_reinit" if (label.startswith("d11") or "reinit" in txt) else ""
        ctx.violation("c11.trace.%s%s" % (rule, conc), "replay %s: rule %s at line %d\n%s" % (label, rule, line, ctxt),
                      replay_path=ctx.replay)
    ctx.sample({"replayed": os.path.basename(ctx.replay), "runs": n, "rules_broken": sorted({v[0] for v in viols})})


# ------------------------------------------------------------------------- main
def run(ctx):
    exe = ctx.build_harness("thr", flavor="tsan")
    if ctx.replay:
        return replay(ctx, exe)
    models(ctx)
    V = Verdicts(ctx, exe)
    all_runs = 0
    hashes = set()

    # ---- (2)+(3a) TLC-derived schedules under TSan, traces validated ---------------------
    want = 24 if ctx.quick else 120
    scheds, ngen = gen_schedules(ctx, want)
    hs = [to_harness(s, i, BACKENDS[i % 3]) for i, s in enumerate(scheds)]
    reinit_conc = {x["label"]: concurrent_reinit(x["steps"]) for x in hs}
    nb = 4 if ctx.quick else 8
    batches = [hs[i::nb] for i in range(nb)]
    ctx.log("C11: %d TLC schedules (of %d generated) in %d batches under TSan" % (len(hs), ngen, nb))
    results = thrlib.pmap(lambda ib: run_sched_batch(exe, ctx, ib[1], "sched_b%d" % ib[0]), list(enumerate(batches)), workers=4)

    def sfx(label):
        return ".concurrent_reinit" if reinit_conc.get(label) or label.startswith("d11") or ".reinit" in label else ""

    by_label = {x["label"]: x for x in hs}
    for bi, res in enumerate(results):
        hg = hang_check(ctx, res, "sched_b%d" % bi)
        if hg:
            lab = hg.get("label", "?").replace(".hang", "").replace(".teardown", "")
            one = by_label.get(lab)
            again = run_sched_batch(exe, ctx, [one], "sched_hang_retry") if one else None
            if one is None or hang_check(ctx, again, lab):
                ctx.violation("c11.hang.sched", "schedule %s hung (watchdog) twice: %s" % (lab, json.dumps(one)),
                              replay_content=json.dumps(one))
            else:
                ctx.notes.setdefault("unreproduced", []).append({"hang": lab})
            # the rest of that batch did not run: run it now
            done = {j.get("label") for j in res["results"]}
            rest = [x for x in batches[bi] if x["label"] not in done and x["label"] != lab]
            if rest:
                results.append(run_sched_batch(exe, ctx, rest, "sched_b%d_rest" % bi))
                batches.append(rest)
            continue
        b = batches[bi]
        crash_check(ctx, res, lambda b=b, bi=bi: run_sched_batch(exe, ctx, b, "sched_b%d_crash" % bi), "c11.crash.sched")
        for j in res["results"]:
            if j.get("result") == "sched" and j["cb_not_once"]:
                ctx.violation("c11.callback.not_exactly_once" + sfx(j["label"]),
                              "schedule %s: %d requests did not get exactly one callback" % (j["label"], j["cb_not_once"]),
                              replay_content=json.dumps(by_label.get(j["label"])))
        b = batches[bi]
        V.tsan(res, lambda b=b, bi=bi: run_sched_batch(exe, ctx, b, "sched_b%d_again" % bi), sfx)
    nruns, viols = thrlib.validate_traces(ctx, [r["trace"] for r in results], "sched")

    def confirm_sched(rule, label):
        one = by_label.get(label)
        if one is None:
            return True
        res = run_sched_batch(exe, ctx, [one], "sched_confirm")
        n2, v2 = thrlib.validate_traces(ctx, [res["trace"]], "sched_confirm")
        return any(x[0] == rule for x in v2)

    V.trace(viols, os.path.join(ctx.out, "sched.all.ndjson"), sfx, confirm_sched)
    all_runs += nruns
    for x in hs:
        if len(x["steps"]) >= 2:
            hashes.add(thrlib.h(x["steps"]))
    for x in hs[:2]:
        ctx.sample({"tlc_schedule": x})

    # ---- (3b) seeded random stress, free running ---------------------------------------------
    nseeds = 2 if ctx.quick else 8
    jobs = []
    for b in BACKENDS:
        for k in range(nseeds):
            jobs.append((b, ctx.seed * 1000 + k * 7 + BACKENDS.index(b), 0))
    jobs.append((BACKENDS[ctx.seed % 3], ctx.seed * 1000 + 501, 1))     # one with concurrent reinit (D11 family)

    def stress(job, tag=""):
        b, seed, ri = job
        name = "stress_%s_%d_%d%s" % (b, seed, ri, tag)
        return thrlib.run_harness(exe, ["stress", "--backend", b, "--seed", str(seed), "--threads", "3", "--ops",
                                        "60" if ctx.quick else "150", "--reinit", str(ri)],
                                  os.path.join(ctx.out, name), timeout=90, tsan=True)

    ctx.log("C11: %d stress runs under TSan" % len(jobs))
    sres = thrlib.pmap(stress, jobs, workers=4)

    def sfx_stress(job):
        return (lambda label: ".concurrent_reinit") if job[2] else (lambda label: "")

    for job, res in zip(jobs, sres):
        hg = hang_check(ctx, res, "stress %s" % (job,))
        if hg:
            if hang_check(ctx, stress(job, "_again"), "again"):
                ctx.violation("c11.hang.stress" + sfx_stress(job)(""), "stress %s hung (watchdog) twice: %s" % (job, hg),
                              replay_content=json.dumps({"job": job}))
            continue
        crash_check(ctx, res, lambda job=job: stress(job, "_crash"), "c11.crash.stress" + sfx_stress(job)(""))
        for j in res["results"]:
            if j.get("result") == "stress":
                if j["cb_not_once"]:
                    ctx.violation("c11.callback.not_exactly_once" + sfx_stress(job)(""),
                                  "stress %s: %d requests without exactly one callback" % (job, j["cb_not_once"]),
                                  replay_content=json.dumps({"job": job}))
                if j["drain_rc"] != 0 and any(x.get("result") == "stress" and x["drain_rc"] != 0
                                              for x in stress(job, "_drain")["results"]):
                    ctx.violation("c11.completion.queue_not_drained" + sfx_stress(job)(""),
                                  "stress %s: queue not empty 5 s after the last operation (rc=%d)" % (job, j["drain_rc"]),
                                  replay_content=json.dumps({"job": job}))
        V.tsan(res, lambda job=job: stress(job, "_again"), sfx_stress(job))
        n1, v1 = thrlib.validate_traces(ctx, [res["trace"]], "stress_%s_%d_%d" % job)
        all_runs += n1

        def confirm(rule, label, job=job):
            r2 = stress(job, "_confirm")
            n2, v2 = thrlib.validate_traces(ctx, [r2["trace"]], "stress_confirm")
            return any(x[0] == rule for x in v2)
        V.trace(v1, os.path.join(ctx.out, "stress_%s_%d_%d.all.ndjson" % job), sfx_stress(job), confirm)
        hashes.add(thrlib.h(job))
    ctx.sample({"stress": {"backend": jobs[0][0], "seed": jobs[0][1], "threads": 3,
                           "result": [j for j in sres[0]["results"] if j.get("result") == "stress"]}})

    # ---- D11: concurrent ares_reinit callers (model: Reinit.tla AsCoded) -------------------
    def d11(gated, tag=""):
        return thrlib.run_harness(exe, ["d11", "--backend", "epoll", "--gated", str(gated)],
                                  os.path.join(ctx.out, "d11_%d%s" % (gated, tag)), timeout=60, tsan=True)
    for gated in (1, 0):
        res = d11(gated)
        if hang_check(ctx, res, "d11"):
            ctx.violation("c11.hang.d11.concurrent_reinit", "d11 scenario hung", replay_content="{}")
            continue
        crash_check(ctx, res, lambda gated=gated: d11(gated, "_crash"), "c11.crash.d11.concurrent_reinit")
        V.tsan(res, lambda gated=gated: d11(gated, "_again"), lambda label: ".concurrent_reinit")
        n1, v1 = thrlib.validate_traces(ctx, [res["trace"]], "d11_%d" % gated)
        all_runs += n1
        V.trace(v1, os.path.join(ctx.out, "d11_%d.all.ndjson" % gated), lambda label: ".concurrent_reinit",
                (lambda rule, label: any(x[0] == rule for x in thrlib.validate_traces(ctx, [d11(1, "_confirm")["trace"]], "d11_confirm")[1]))
                if gated else None)
        hashes.add(thrlib.h(["d11", gated]))

    # ---- several waiters on cond_empty; cache flush by the reload thread ---------------------
    def waiters(b, how, tag=""):
        return thrlib.run_harness(exe, ["waiters", "--backend", b, "--n", "3" if how == "cancel" else "2", "--how", how],
                                  os.path.join(ctx.out, "waiters_%s_%s%s" % (b, how, tag)), timeout=60, tsan=True)

    def lost(res):
        return [j for j in res["results"] if j.get("result") == "waiters" and any(rc != 0 for rc in j["rc"])]

    wjobs = [(b, "timeout") for b in BACKENDS] + [(BACKENDS[ctx.seed % 3], "cancel")]
    wres = thrlib.pmap(lambda j: waiters(*j), wjobs, workers=4)
    for (b, how), res in zip(wjobs, wres):
        if hang_check(ctx, res, "waiters") and hang_check(ctx, waiters(b, how, "_again"), "waiters"):
            ctx.violation("c11.hang.waiters", "waiters scenario %s/%s hung twice" % (b, how), replay_content=json.dumps({"cmd": " ".join(res["args"])}))
            continue
        crash_check(ctx, res, lambda b=b, how=how: waiters(b, how, "_crash"), "c11.crash.waiters")
        if lost(res) and lost(waiters(b, how, "_again")):
            j = lost(res)[0]
            ctx.violation("c11.wait_empty.lost_wakeup.several_waiters",
                          "%d threads slept in ares_queue_wait_empty(4000) while one request was pending; the queue was empty at "
                          "+%d ms but the waiters returned %s after %s ms (0 = ARES_SUCCESS, 12 = ARES_ETIMEOUT)" %
                          (j["n"], j["drained_at_ms"], j["rc"], j["elapsed_ms"]),
                          replay_content=json.dumps({"cmd": " ".join(res["args"]), "result": j}))
        V.tsan(res, lambda b=b, how=how: waiters(b, how, "_tsan"), lambda label: "")
        n1, v1 = thrlib.validate_traces(ctx, [res["trace"]], "waiters_%s_%s" % (b, how))
        all_runs += n1
        V.trace(v1, os.path.join(ctx.out, "waiters_%s_%s.all.ndjson" % (b, how)), lambda label: "",
                lambda rule, label, b=b, how=how: any(x[0] == rule for x in thrlib.validate_traces(
                    ctx, [waiters(b, how, "_confirm")["trace"]], "waiters_confirm")[1]))
        hashes.add(thrlib.h(["waiters", b, how]))
    ctx.sample({"waiters": [j for j in wres[0]["results"] if j.get("result") == "waiters"]})

    def qcflush(b, tag=""):
        return thrlib.run_harness(exe, ["qcflush", "--backend", b], os.path.join(ctx.out, "qcflush_%s%s" % (b, tag)),
                                  timeout=60, tsan=True)
    for b in (BACKENDS[:1] if ctx.quick else BACKENDS):
        res = qcflush(b)
        if hang_check(ctx, res, "qcflush") and hang_check(ctx, qcflush(b, "_again"), "qcflush"):
            ctx.violation("c11.hang.qcflush", "cache-flush scenario hung twice", replay_content=json.dumps({"cmd": " ".join(res["args"])}))
            continue
        crash_check(ctx, res, lambda b=b: qcflush(b, "_crash"), "c11.crash.qcflush")
        seen_flush = [j for j in res["results"] if j.get("result") == "qcflush" and j["flush_seen"] and j["warm_ok"]]
        if not seen_flush:
            ctx.notes.setdefault("qcflush_not_established", []).append(b)
        V.tsan(res, lambda b=b: qcflush(b, "_tsan"), lambda label: "")
        n1, v1 = thrlib.validate_traces(ctx, [res["trace"]], "qcflush_%s" % b)
        all_runs += n1
        V.trace(v1, os.path.join(ctx.out, "qcflush_%s.all.ndjson" % b), lambda label: "")
        hashes.add(thrlib.h(["qcflush", b]))
    if ctx.notes.get("qcflush_not_established") and len(ctx.notes["qcflush_not_established"]) == (1 if ctx.quick else 3):
        raise vlib.MachineryError("the cache-flush scenario could not be established (no cached answer freed by the reload thread)")

    # ---- self-test: a corrupted accepted trace must be rejected ------------------------------
    corrupt_selftest(ctx, results[0]["trace"])

    # ---- lost wake-ups of the event thread ("... without lost wake-ups, and ... bounded completion time"): the
    # wake-up family shared with C07 -- a client thread issues a request while the event thread is in each phase of
    # its loop (about to compute its sleep, sleeping with / without a deadline, dispatching), on a fresh, a busy or an
    # idle connection, every backend; EvLoop.tla counterexamples replayed, NoOutwait rule of ThreadsTrace.tla
    import c07_thr
    c07_thr.run_threaded(ctx)

    ctx.cov["traces_validated_against_impl"] += all_runs
    ctx.cov["evaluations"] += all_runs
    ctx.cov["distinct_nontrivial"] += len(hashes)
    ctx.cov["rule"] = ("a case is one harness run (TLC-derived schedule, stress seed or D11 scenario) whose sync-event trace was "
                       "validated by TLC; distinct by hash of the operation script (schedule steps / seed); non-trivial: at "
                       "least two operations on a live event thread")
    ctx.notes["tsan_benign_filtered"] = V.benign
    ctx.assumptions.append("TSan reports whose location is a file descriptor are not counted: fd-number reuse between "
                           "close()/connect() in a client thread and the event thread's queued epoll_ctl(DEL); the update "
                           "queue orders delete before add and no memory is shared")
    ctx.assumptions.append("schedule control is at H3/H4 granularity (lock, phase), not every memory access; ThreadSanitizer "
                           "sees only the schedules that occurred; absence of races is proved for the TLA+ model only")


def corrupt_selftest(ctx, trace):
    """Flip one field of an accepted trace: TLC must reject it."""
    lines = [ln for ln in open(trace) if ln.strip()]
    runs = thrlib.trace_labels(trace)
    if not runs:
        raise vlib.MachineryError("corruption self-test: no run in %s" % trace)
    a, b, lab, _ = runs[0]
    seg = lines[a - 1:b]
    rejected = []
    # (1) drop the first channel-lock acquisition that is directly followed by an access
    for i in range(len(seg) - 1):
        if '"k":"lock"' in seg[i] and '"m":"chan"' in seg[i] and '"k":"access"' in seg[i + 1]:
            mut = seg[:i] + seg[i + 1:]
            rejected.append(("drop_lock", mut))
            break
    # (2) a callback reported twice
    for i in range(len(seg)):
        if '"k":"cb"' in seg[i]:
            rejected.append(("double_cb", seg[:i + 1] + [seg[i]] + seg[i + 1:]))
            break
    # (3) an unlock by another thread
    for i in range(len(seg)):
        if '"k":"unlock"' in seg[i] and '"m":"chan"' in seg[i]:
            j = json.loads(seg[i])
            j["t"] = j["t"] + 17
            rejected.append(("foreign_unlock", seg[:i] + [json.dumps(j) + "\n"] + seg[i + 1:]))
            break
    if len(rejected) < 2:
        raise vlib.MachineryError("corruption self-test: trace %s offers no place to corrupt" % trace)
    n0, v0 = thrlib.validate_traces(ctx, [trace], "selftest_orig")
    base = {x[0] for x in v0 if x[1] == lab}
    res = {}
    for name, mut in rejected:
        f = os.path.join(ctx.out, "selftest_%s.ndjson" % name)
        open(f, "w").write("".join(mut))
        n1, v1 = thrlib.validate_traces(ctx, [f], "selftest_" + name)
        new = {x[0] for x in v1} - base
        res[name] = sorted(new)
        if not new:
            raise vlib.MachineryError("corruption self-test: mutated trace (%s) was still accepted" % name)
    ctx.notes["corrupted_trace_selftest"] = res
