"""C20 - outcome does not depend on how the transport chops or delays bytes (Stream facet)."""
import mutators
import simlib

KEEP = {"init", "call", "ret", "sk", "env", "ann", "cbb", "crash"}
FACETS = [("StreamTrace.tla", "StreamTrace.cfg", KEEP, None)]


def run(ctx):
    gens = [{"module": "Gen_C20.tla", "cfg": "Gen_C20_udp.cfg", "name": "udp"},
            {"module": "Gen_C20.tla", "cfg": "Gen_C20_tcp_quick.cfg" if ctx.quick else "Gen_C20_tcp_thorough.cfg", "name": "tcp"},
            {"module": "Gen_C20.tla", "cfg": "Gen_C20_tcpclose.cfg", "name": "tcpclose"},   # server answers, then closes
            {"module": "Gen_C20.tla", "cfg": "Gen_C20_tcpmixed.cfg", "name": "tcpmixed"},   # answers of unequal size
            {"module": "GenTcpFail.tla", "cfg": "GenTcpFail.cfg", "name": "tcpfail"}]
    simlib.engine_check(ctx, gens, FACETS, labels=("c20.",), selftests=mutators.STREAM)
