"""Shared plumbing for the threaded checks (C11, C07_THR): running harness/thr,
parsing ThreadSanitizer reports, validating sync-event traces with TLC against
specs/Threads/ThreadsTrace.tla."""
import concurrent.futures
import hashlib
import json
import os
import re
import sys

sys.path.insert(0, os.path.join(os.path.dirname(os.path.abspath(__file__)), "..", "tools"))
import vlib  # noqa: E402

SPECDIR = os.path.join(vlib.ROOT, "specs", "Threads")
NOTE = ["-noGenerateSpecTE"]


def tlc(spec, cfg, **kw):
    kw.setdefault("extra", NOTE)
    return vlib.tlc(os.path.join(SPECDIR, spec), cfg, **kw)


def model_check(ctx, spec, cfg, expect=None, **kw):
    """Run TLC on a model.  expect=None: must pass.  expect="Inv": the run is a
    sensitivity self-test that must violate exactly that invariant/property."""
    kw.setdefault("extra", NOTE)
    if expect == "temporal":
        # vlib.parse_tlc does not know "Temporal property X was violated": run raw
        r = vlib.tlc(os.path.join(SPECDIR, spec), cfg, **kw)
        if re.search(r"Temporal propert(y \w+ was|ies were) violated", r.out):
            r.violation = "temporal"
        elif r.error or r.rc != 0:
            raise vlib.MachineryError("TLC failed on %s/%s rc=%s:\n%s" % (spec, cfg, r.rc, r.out[-3000:]))
        ctx.cov["states"] += r.distinct
        ctx.cov["transitions"] += r.generated
        ctx.notes.setdefault("tlc_runs", []).append(
            {"spec": "Threads/" + spec, "cfg": cfg, "distinct": r.distinct, "generated": r.generated, "depth": r.depth,
             "wall_s": round(r.wall, 1), "violation": r.violation, "coverage": None})
    else:
        r = ctx.model_check("Threads/" + spec, cfg, **kw)
    if expect is None:
        if r.violation:
            raise vlib.MachineryError("model %s/%s violates %s (the model itself is wrong):\n%s" %
                                      (spec, cfg, r.violation, r.out[-3000:]))
    else:
        if r.violation is None:
            raise vlib.MachineryError("sensitivity lost: %s/%s was expected to violate %s but passed" % (spec, cfg, expect))
        if expect not in ("temporal",) and r.violation != expect:
            raise vlib.MachineryError("sensitivity: %s/%s violated %s, expected %s" % (spec, cfg, r.violation, expect))
    return r


def cex_actions(r):
    """Action names of a TLC counterexample."""
    return [m.group(1) for m in re.finditer(r"State \d+: <(\w+(?:\(\"?\w+\"?(?:,\"?\w+\"?)*\))?)", r.out)]


def pmap(fn, items, workers=6):
    with concurrent.futures.ThreadPoolExecutor(max_workers=workers) as ex:
        return list(ex.map(fn, items))


# --------------------------------------------------------------------------- harness
TSAN_ENV = {"TSAN_OPTIONS": "halt_on_error=0 exitcode=66 report_thread_leaks=1 second_deadlock_stack=1 history_size=4"}


def run_harness(exe, args, out_prefix, timeout=60, tsan=False):
    """Returns dict(rc, results=[json...], stderr, trace)."""
    trace = out_prefix + ".ndjson"
    tmp = os.path.dirname(out_prefix)
    cmd = [exe] + args + ["--trace", trace, "--tmp", tmp + "/tmp_" + os.path.basename(out_prefix)]
    os.makedirs(tmp + "/tmp_" + os.path.basename(out_prefix), exist_ok=True)
    errf = out_prefix + ".err"
    # `exec timeout`: the harness is the direct child (no orphan keeps the pipe open when it is
    # killed) and is killed by coreutils timeout even if its own watchdog cannot run; rc 124/137 = hang
    rc, out = vlib.sh("exec timeout -k 2 %d %s 2> %s" % (timeout, " ".join(cmd), errf), timeout=timeout + 15,
                      env=TSAN_ENV if tsan else None)
    if rc == 137:
        rc = 124
    results = []
    for ln in out.splitlines():
        ln = ln.strip()
        if ln.startswith("{"):
            try:
                results.append(json.loads(ln))
            except ValueError:
                pass
    err = open(errf).read() if os.path.exists(errf) else ""
    for r in results:
        if "machinery" in r:
            raise vlib.MachineryError("harness: %s (%s)" % (r["machinery"], " ".join(args)))
    hang = rc == 124 or any(r.get("result") == "hang" for r in results)
    crashed = (not hang) and rc not in (0, 66)
    return {"rc": rc, "results": results, "stderr": err, "trace": trace, "args": args, "crashed": crashed}


LIBFRAME = re.compile(r"#\d+ (\S+) (/\S+?/src/lib/\S+?):(\d+)")


def parse_tsan(stderr):
    """Split ThreadSanitizer output into reports.  Each: kind, sig, label, text, benign."""
    reps = []
    label = ""
    cur = None
    for ln in stderr.splitlines():
        m = re.match(r"## begin (\S+)", ln)
        if m:
            label = m.group(1)
        m = re.match(r"WARNING: ThreadSanitizer: ([^(]+?) \(pid", ln)
        if m:
            cur = {"kind": m.group(1).strip().replace(" ", "_"), "label": label, "lines": []}
            reps.append(cur)
        if cur is not None:
            if ln.startswith("SUMMARY: ThreadSanitizer"):
                cur["lines"].append(ln)
                cur = None
            else:
                cur["lines"].append(ln)
    for r in reps:
        text = "\n".join(r["lines"])
        r["text"] = text
        # stacks are separated by blank lines; take, per stack, the first frame inside
        # src/lib that is not the thread wrapper file
        funcs = []
        for stack in re.split(r"\n\s*\n", text):
            if "Location is" in stack or "Mutex M" in stack or "Thread T" in stack and "created by" in stack and r["kind"] != "thread_leak":
                continue
            for m in LIBFRAME.finditer(stack):
                if m.group(2).endswith("util/ares_threads.c"):
                    continue
                funcs.append(m.group(1))
                break
        r["benign"] = None
        if "Location is file descriptor" in text:
            # fd-number reuse between close() in a client thread and the queued
            # epoll_ctl(DEL) of the event thread: no memory is shared, the update
            # queue orders delete before add
            r["benign"] = "fd"
        if not funcs:
            r["benign"] = r["benign"] or "harness_only"
        r["funcs"] = funcs
        r["sig"] = "c11.tsan.%s.%s" % (r["kind"], "+".join(sorted(funcs)) if funcs else "none")
        del r["lines"]
    return reps


# --------------------------------------------------------------------------- traces
def trace_labels(path):
    """[(first_line, last_line, label, truncated)] of the runs in an ndjson file."""
    runs = []
    start = None
    lab = None
    trunc = 0
    n = 0
    with open(path) as f:
        for n, ln in enumerate(f, 1):
            if ln.startswith('{"k":"begin"'):
                j = json.loads(ln)
                start, lab, trunc = n, j["label"], j.get("trunc", 0)
            elif ln.startswith('{"k":"reset"'):
                if start is not None:
                    runs.append((start, n, lab, trunc))
                start = None
    if start is not None:
        runs.append((start, n, lab, trunc))
    return runs


MAX_RUN_LINES = 60000


def validate_traces(ctx, files, name, timeout=600):
    """Concatenate trace files, run ThreadsTrace.  Returns (n_runs, [(rule, label, line, text)]).
    A run with more than MAX_RUN_LINES events (an event thread spinning) is not validated; it is
    listed in ctx.notes["oversized_traces"] (the direct oracles still apply to it)."""
    cat = os.path.join(ctx.out, name + ".all.ndjson")
    nlines = 0
    with open(cat, "w") as o:
        for f in files:
            if not os.path.exists(f):
                continue
            buf = []
            lab = None
            for ln in open(f):
                if not ln.strip():
                    continue
                buf.append(ln)
                if ln.startswith('{"k":"begin"'):
                    lab = ln[:120]
                if ln.startswith('{"k":"reset"'):
                    if len(buf) <= MAX_RUN_LINES:
                        o.writelines(buf)
                        nlines += len(buf)
                    else:
                        ctx.notes.setdefault("oversized_traces", []).append({"run": lab, "events": len(buf)})
                    buf = []
            if buf and len(buf) <= MAX_RUN_LINES:
                o.writelines(buf)
                nlines += len(buf)
    if nlines == 0:
        return 0, []
    runs = trace_labels(cat)
    for (_, _, lab, trunc) in runs:
        if trunc:
            raise vlib.MachineryError("trace of %s was truncated (event buffer too small)" % lab)
    r = tlc("ThreadsTrace.tla", "ThreadsTrace.cfg", workers=1, env={"TRACE": cat}, deadlock=False, timeout=timeout,
            heap="4g")
    if r.error or r.rc not in (0,):
        # POSTCONDITION false => some line was not consumed (unknown event shape)
        raise vlib.MachineryError("trace validation failed to consume %s (rc=%s):\n%s" % (cat, r.rc, r.out[-3000:]))
    rep = None
    for ln in r.out.splitlines():
        if ln.startswith('"{') and "report" in ln:
            rep = json.loads(json.loads(ln))
    if rep is None or rep.get("lines") != nlines:
        raise vlib.MachineryError("trace validation: no report / line count mismatch for %s:\n%s" % (cat, r.out[-2000:]))
    ctx.cov["states"] += r.distinct
    ctx.cov["transitions"] += r.generated
    lines = open(cat).read().splitlines()
    viols = []
    for v in rep["report"]:
        at = v["at"]
        lab = "?"
        for (a, b, l2, _) in runs:
            if a <= at <= b:
                lab = l2
        ctxt = "\n".join(lines[max(0, at - 6):at + 1])
        viols.append((v["r"], lab, at, ctxt))
    return len(runs), viols


def run_trace_text(cat_path, label):
    """The ndjson lines of one run (for replay files)."""
    out = []
    on = False
    for ln in open(cat_path):
        if ln.startswith('{"k":"begin"'):
            on = json.loads(ln)["label"] == label
        if on:
            out.append(ln)
        if ln.startswith('{"k":"reset"'):
            on = False
    return "".join(out)


def h(obj):
    return hashlib.sha1(json.dumps(obj, sort_keys=True).encode()).hexdigest()[:12]
