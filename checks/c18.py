"""C18 -- legacy reply parsers agree with the record API and respect caller limits.

Oracle: specs/Legacy/LegacyView.tla (View(fn, mode, cap, msg)).
  1. TLC (LegacyGen.tla) enumerates the message space (BFS: every message of every family up to 3
     answer RRs, and every in-order alias chain of 0..3 links x independently chosen TTLs x 1..2
     addresses; LegacyMixGen.tla: 0..2 aliases followed by up to 5 address records each of which is
     freely an A or an AAAA record; thorough: additionally -simulate with larger alphabets/bounds), checks the
     invariants of the views on every message and prints every message + call plan as JSON.
  2. harness/legacy builds each message through the public record setters, serialises it, calls
     every planned legacy parser (capacities 0..N, all modes) on the bytes and on truncated /
     byte-mutated copies, dumps what ares_dns_parse + getters report for the same bytes, and
     records everything as ndjson.
  3. TLC (LegacyTrace.tla) validates every recorded line against View; unexplained lines are
     printed with labelled reasons = violation signatures.
  4. Allocation-failure dimension (checks/legacy_oom.py, also called by C14): message family from
     LegacyOomGen.tla, every planned call repeated with exactly the n-th allocation of the call failing
     for every n, outcomes decided by LegacyTrace!OomLabels (error and nothing returned, or exactly
     View; nothing left allocated); signatures c18.oom.<parser>.<what>.
Python only moves data between the three (format conversion, sharding, equality of labels).
"""
import concurrent.futures
import hashlib
import json
import os
import random
import re
import subprocess
import time

import vlib

SPEC_DIR = os.path.join(vlib.ROOT, "specs", "Legacy")
META_KEYS = ("name", "type", "cls", "ttl")
HEX_FIELDS = ("flags", "svc", "re", "tag", "uri")        # text in the spec, hex on the harness input line
OWN = {"A": [("a", "both", 2)], "AAAA": [("aaaa", "both", 2)], "NS": [("ns", "-", 0)],
       "PTR": [("ptr", "addr", 0)], "MX": [("mx", "-", 0)], "SRV": [("srv", "-", 0)],
       "TXT": [("txt", "-", 0), ("txt_ext", "-", 0)], "SOA": [("soa", "-", 0)], "CAA": [("caa", "-", 0)],
       "NAPTR": [("naptr", "-", 0)], "URI": [("uri", "-", 0)]}
ALL_MUT_CALLS = [("a", "both", 2), ("a", "ttls", 1), ("aaaa", "both", 1), ("aaaa", "ttls", 2), ("ns", "-", 0),
                 ("ptr", "addr", 0), ("mx", "-", 0), ("srv", "-", 0), ("txt", "-", 0), ("txt_ext", "-", 0),
                 ("soa", "-", 0), ("caa", "-", 0), ("naptr", "-", 0), ("uri", "-", 0)]
NSHARD = 8


# ------------------------------------------------------------------ plumbing: TLC output -> harness input
def parse_printed(out, kind):
    """JSON objects printed by PrintT(ToJson(..)) (a quoted TLA+ string per line)."""
    res = []
    for line in out.splitlines():
        if not line.startswith('"{'):
            continue
        try:
            obj = json.loads(json.loads(line))
        except ValueError:
            continue
        if obj.get("k") == kind:
            res.append(obj)
    return res


def u32(v):
    return int(v) & 0xFFFFFFFF


def rr_line(sect, r):
    toks = ["R", sect, r["name"], r["type"], str(r["cls"]), str(u32(r["ttl"]))]
    for k in sorted(r):
        if k in META_KEYS:
            continue
        v = r[k]
        if k == "chunks":
            v = ",".join(c if c else "-" for c in v)
        elif k in HEX_FIELDS:
            v = v.encode("latin-1").hex() or "-"
        elif k == "val":
            v = v or "-"
        elif isinstance(v, int):
            v = str(u32(v)) if k in ("serial", "refresh", "retry", "expire", "minimum") else str(v)
        toks.append("%s=%s" % (k, v))
    return " ".join(toks)


def vector_text(vid, vec, mut_calls=None, trunc=1, nflips=0):
    m = vec["msg"]
    lines = ["V %d" % vid, "Q %s %s" % (m["q"]["name"], m["q"]["type"])]
    for sect in ("an", "ns", "ar"):
        for r in m[sect]:
            lines.append(rr_line(sect, r))
    for c in vec["calls"]:
        lines.append("C %s %s %d" % (c["fn"], c["mode"], c["cap"]))
    for fn, mode, cap in (mut_calls or []):
        lines.append("M %s %s %d %d %d" % (fn, mode, cap, trunc, nflips))
    for c in vec.get("oom", []):          # allocation-failure sweeps planned by LegacyOomGen.tla
        lines.append("O %s %s %d" % (c["fn"], c["mode"], c["cap"]))
    lines.append("E")
    return "\n".join(lines) + "\n"


def canon(obj):
    return json.dumps(obj, sort_keys=True, separators=(",", ":"))


# ------------------------------------------------------------------ hand-written wire cases
def _wname(n):
    out = b""
    for lab in n.strip(".").split("."):
        if lab:
            out += bytes([len(lab)]) + lab.encode()
    return out + b"\0"


def _wmsg(qtype, rrs, qname="n0.test"):
    import struct
    b = struct.pack(">HHHHHH", 0x1234, 0x8180, 1, len(rrs), 0, 0) + _wname(qname) + struct.pack(">HH", qtype, 1)
    for (owner, t, cls, ttl, rd) in rrs:
        b += _wname(owner) + struct.pack(">HHIH", t, cls, ttl, len(rd)) + rd
    return b


def wire_cases():
    """Byte strings that ares_dns_write cannot produce (or only by luck of the mutations); they take the
    same route as the mutated vectors: the record API's verdict on the bytes is recorded next to the
    legacy result and LegacyTrace decides."""
    import struct
    n0 = "n0.test"
    ptr_n0 = b"\xc0\x0c"                      # compression pointer to the question name
    return [
        _wmsg(257, [(n0, 257, 1, 60, bytes([0, 5]) + b"issue")]),                      # CAA, empty value
        _wmsg(257, [(n0, 257, 1, 60, bytes([0, 0]) + b"x")]),                          # CAA, empty tag
        _wmsg(16, [(n0, 16, 1, 60, b"")]),                                             # TXT without strings
        _wmsg(16, [(n0, 16, 1, 60, b"\0")]),                                           # TXT, one empty string
        _wmsg(16, [(n0, 16, 1, 60, bytes([255]) + b"x" * 255 + bytes([1]) + b"y")]),   # TXT, 255-byte string
        _wmsg(1, [(n0, 1, 1, 60, b"\x0a\0\0")]),                                      # A, short rdata
        _wmsg(1, [(n0, 1, 1, 60, b"\x0a\0\0\1\2")]),                                  # A, long rdata
        _wmsg(15, [(n0, 15, 1, 0x80000000, struct.pack(">H", 1) + ptr_n0)]),           # MX, TTL top bit, pointer
        _wmsg(256, [(n0, 256, 1, 0xFFFFFFF0, struct.pack(">HH", 1, 2) + b"http://x")]),  # URI, huge TTL
        _wmsg(1, [(n0, 5, 1, 0x80000000, ptr_n0[:0] + _wname("n1.test")),
                  ("n1.test", 1, 1, 60, b"\x0a\0\0\1"), ("n1.test", 1, 1, 0xFFFFFFFF, b"\x0a\0\0\2")]),  # TTL signs
        _wmsg(1, [("N0.TEST", 5, 1, 60, _wname("N1.test")), ("n1.TEST", 5, 1, 30, _wname("n2.test")),
                  ("n2.test", 1, 1, 60, b"\x0a\0\0\1")], qname="N0.test"),             # mixed-case chain
        _wmsg(33, [(n0, 33, 1, 60, struct.pack(">HHH", 1, 2, 3) + b"\0")]),            # SRV, root target
        _wmsg(6, [(n0, 6, 1, 60, _wname("n1.test") + _wname("n2.test") + b"\xff" * 20)]),  # SOA, all-ones counters
        _wmsg(1, [(n0, 1, 1, 60, b"\x0a\0\0\1")]) + b"\0\0",                          # trailing bytes
    ]


# ------------------------------------------------------------------ harness + validation
def run_harness(exe, vec_path, out_path, seed, timeout):
    # redzone=128: a store through an index that drifted up to 16 pointer slots past the end of a small block lands in
    # the redzone (default 16 bytes: the 3rd slot past the end is already the next live block -- silent corruption)
    env = {"ASAN_OPTIONS": "detect_leaks=1:abort_on_error=0:halt_on_error=1:exitcode=99:redzone=128",
           "UBSAN_OPTIONS": "print_stacktrace=1:halt_on_error=1"}
    rc, out = vlib.sh([exe, vec_path, out_path, str(seed)], timeout=timeout, env=env)
    if rc == 0 and re.search(r"ERROR: \w+Sanitizer|runtime error:", out):
        rc = 99
    return rc, out


def add_src(raw_path, trace_path, srcs, crash_sig=None, append=False):
    """Copy the harness output to the trace file; attach the TLC-generated abstract message to the line of
    the unmutated vector (by id) and the sanitizer report kind to a crash event."""
    n_lines = n_calls = n_mut = 0
    crashed = None
    prefix = re.compile(r'^\{"e":"msg","id":(\d+),"mut":"(?:none|oom)",')
    with open(raw_path) as fi, open(trace_path, "a" if append else "w") as fo:
        for line in fi:
            if not line.endswith("}\n"):
                break                      # harness died (sanitizer abort) in the middle of a line
            if line.startswith('{"e":"crash"'):
                cj = json.loads(line)           # inside an allocation-failure sweep: also "fn" and "oom"
                crashed = cj["id"]
                line = json.dumps(dict(cj, sig=crash_sig or "crash.unknown")) + "\n"
            n_lines += 1
            n_calls += line.count('{"fn":')
            if '"mut":"none"' not in line[:60] and '"mut":"oom"' not in line[:60] and line.startswith('{"e":"msg"'):
                n_mut += 1
            mm = prefix.match(line)
            if mm and int(mm.group(1)) in srcs:
                line = line.rstrip("\n")[:-1] + ',"src":' + srcs[int(mm.group(1))] + "}\n"
            fo.write(line)
    return n_lines, n_calls, n_mut, crashed


def validate(trace_path, nlines, timeout=600, coverage=False):
    """Run LegacyTrace.tla over one ndjson file; returns (deviations, TlcResult)."""
    r = vlib.tlc(os.path.join(SPEC_DIR, "LegacyTrace.tla"), "LegacyTrace.cfg", workers=1, timeout=timeout,
                 env={"TRACE": trace_path}, heap="3g", coverage=coverage)
    if r.error or r.rc not in (0,) or r.violation:
        raise vlib.MachineryError("LegacyTrace failed on %s rc=%s:\n%s" % (trace_path, r.rc, r.out[-4000:]))
    if r.distinct != nlines + 1:
        raise vlib.MachineryError("LegacyTrace consumed %d of %d lines of %s:\n%s" %
                                  (r.distinct - 1, nlines, trace_path, r.out[-3000:]))
    return parse_printed(r.out, "dev"), r


def sanitizer_signature(out):
    m = re.search(r"ERROR: (AddressSanitizer|LeakSanitizer): ([\w-]+)", out)
    kind = (m.group(1) + "." + m.group(2)) if m else None
    if not kind:
        m = re.search(r"runtime error: ([^\n]{0,80})", out)
        kind = "UBSan." + re.sub(r"[^A-Za-z]+", "_", m.group(1)).strip("_")[:40] if m else "crash"
    fn = "unknown"
    for m in re.finditer(r"#\d+ 0x[0-9a-f]+ in (\w+) (\S+)", out):
        if "/src/lib/" in m.group(2) and m.group(1) not in ("ares_malloc", "ares_realloc", "ares_realloc_zero",
                                                             "ares_malloc_zero", "ares_free", "ares_strdup"):
            fn = m.group(1)
            break
    return "sanitizer.%s.%s" % (kind, fn)


def is_sanitizer(label):
    """Labels of LegacyTrace for a crash event: "sanitizer.<kind>.<fn>" / "oom.<parser>.sanitizer.<kind>.<fn>"."""
    return label.startswith("sanitizer.") or ".sanitizer." in label


MAX_RESUME = 400       # sanitizer aborts after which the rest of one harness input is given up (counted, never silent)


def execute(exe, texts, ids, srcs, base, seed, timeout):
    """Run the harness over the vectors `ids` (in this order) and collect the recorded lines in <base>.ndjson.
    A sanitizer abort ends the harness process inside a vector (crash event with the vector id): the harness is
    started again behind that vector, so that one aborting vector never hides the vectors after it.
    -> (trace path, lines, calls, mutated lines, [(sanitizer signature, report text, vector id or None)],
        number of vectors not executed because MAX_RESUME aborts were reached)"""
    vp, raw, tr = base + ".vec", base + ".raw", base + ".ndjson"
    todo = list(ids)
    san = []
    with open(tr, "w"):
        pass
    nl = nc = nm = 0
    for attempt in range(MAX_RESUME):
        with open(vp, "w") as f:
            for i in todo:
                f.write(texts[i])
        rc, out = run_harness(exe, vp, raw, seed, timeout)
        if rc == 124:
            raise vlib.MachineryError("harness timeout on %s" % vp)
        if rc == 3 or not os.path.exists(raw):
            raise vlib.MachineryError("harness failed rc=%d on %s:\n%s" % (rc, vp, out[-3000:]))
        sig = sanitizer_signature(out)[len("sanitizer."):] if rc != 0 else None
        a, b, c, crashed = add_src(raw, tr, srcs, crash_sig=sig, append=True)
        nl, nc, nm = nl + a, nc + b, nm + c
        os.unlink(raw)
        if rc != 0:
            san.append((sig, out[-6000:], crashed))
        if crashed is None:                       # ran to the end (a report at exit, if any, is in `san`)
            todo = []
            break
        if crashed not in todo:
            raise vlib.MachineryError("harness aborted in vector %s, which is not in its input %s" % (crashed, vp))
        todo = todo[todo.index(crashed) + 1:]     # go on behind the vector that killed the process
        if not todo:
            break
    with open(vp, "w") as f:                      # leave the whole input behind, not the last remainder
        for i in ids:
            f.write(texts[i])
    return tr, nl, nc, nm, san, len(todo)


class Campaign:
    """vectors -> harness -> trace validation, sharded."""

    def __init__(self, ctx, exe, name):
        self.ctx, self.exe, self.name = ctx, exe, name
        self.texts = {}        # id -> harness text
        self.srcs = {}         # id -> canonical src json
        self.lines = 0
        self.calls = 0
        self.mutated = 0
        self.sanitizer_reports = {}
        self.sigmap = lambda s: s          # label -> violation signature (legacy_oom in C14: "c14.legacy." + ...)
        self.exit_reports = set()
        self.not_executed = 0  # vectors behind the MAX_RESUME-th sanitizer abort of their shard
        self.devs = []         # (shard trace path, dev object)
        self.coverage = {}
        self.accepted_lines = 0
        self.hashes = set()
        self.nontrivial = 0

    def add(self, vid, vec, **kw):
        self.texts[vid] = vector_text(vid, vec, **kw)
        self.srcs[vid] = canon(vec["msg"])

    def run(self, timeout=900):
        ctx = self.ctx
        ids = sorted(self.texts)
        shards = [ids[i::NSHARD] for i in range(NSHARD)]
        shards = [s for s in shards if s]
        jobs = [(k, os.path.join(ctx.out, "%s.%d" % (self.name, k))) for k in range(len(shards))]

        def one(job):
            k, base = job
            tr, nl, nc, nm, san, skipped = execute(self.exe, self.texts, shards[k], self.srcs, base, ctx.seed, timeout)
            devs, r = validate(tr, nl, timeout, coverage=(k == 0))
            return tr, nl, nc, nm, devs, r, san, skipped

        with concurrent.futures.ThreadPoolExecutor(max_workers=NSHARD) as ex:
            results = list(ex.map(one, jobs))
        for tr, nl, nc, nm, devs, r, san, skipped in results:
            self.not_executed += skipped
            self.lines += nl
            self.calls += nc
            self.mutated += nm
            self.accepted_lines += nl - len(devs)
            ctx.cov["states"] += r.distinct
            ctx.cov["transitions"] += r.generated
            for a, (taken, gen) in r.coverage.items():
                t0, g0 = self.coverage.get(a, (0, 0))
                self.coverage[a] = (t0 + taken, g0 + gen)
            for d in devs:
                self.devs.append((tr, d))
            for sig, text, crashed in san:
                self.sanitizer_reports.setdefault("sanitizer." + sig, text)
                if crashed is None and sig not in self.exit_reports:
                    # killed outside a vector (e.g. leak report at exit): no crash event in the trace
                    self.exit_reports.add(sig)
                    ctx.violation(self.sigmap("sanitizer." + sig), "sanitizer report at exit of the harness:\n%s" % text)
            # distinct / non-trivial count (rule in run())
            with open(tr) as f:
                for line in f:
                    if not line.startswith('{"e":"msg"'):
                        continue
                    body = line[line.index('"mut"'):]
                    h = hashlib.sha1(body.encode()).digest()[:10]
                    if h in self.hashes:
                        continue
                    self.hashes.add(h)
                    if '"ok":0' in line[:120] or '"an":[]' not in line:
                        self.nontrivial += 1
        return self


def oom_sig(label):
    """Signature of a label of the allocation-failure rule (LegacyTrace!OomLabels) in this check."""
    return "c18." + label if label.startswith("oom.") else label


def report_deviations(ctx, camp, confirm_exe, sigmap=oom_sig):
    """Map the deviations printed by LegacyTrace to violations (one per distinct signature).

    Confirmation rule.  A label that is not a known finding is reported only if a separate re-run of the vector
    that showed it (its own harness process batch, resumed behind every sanitizer abort) shows the *same label for
    the same vector* again.  Only labels are compared, never the concrete wrong values (after a memory error these
    may differ from run to run).  Sanitizer reports always win: a sanitizer label is reported whether it comes from
    the first run or from the re-run, and a label that does not repeat because the re-run of its vector was aborted
    by a sanitizer is replaced by that sanitizer label.  A label that does not repeat for no such reason is never
    reported; if nothing else is left to report the run ends as a machinery error (flaky observation)."""
    by_sig = {}
    for tr, d in camp.devs:
        for lab in set(d.get("labels", [])):
            ent = by_sig.setdefault(lab, {"n": 0, "first": None})
            ent["n"] += 1
            if ent["first"] is None or (not ent["first"][1].get("detail") and d.get("detail")):
                if any(lab in x.get("labels", []) for x in d.get("detail", [])) or ent["first"] is None:
                    ent["first"] = (tr, d)
    for sig in by_sig:
        if sig.startswith("machinery."):
            tr, d = by_sig[sig]["first"]
            raise vlib.MachineryError("%s at %s line %s: %s" % (sig, tr, d.get("line"), json.dumps(d)[:3000]))

    def is_known(sig):
        return any(k["property"] == ctx.pid and re.search(k["signature"], sigmap(sig))
                   for k in ctx.kf.get("known", []))

    def first_id(sig):
        return by_sig[sig]["first"][1].get("id", -1)

    new = [s for s in sorted(by_sig) if not is_known(s) and camp.texts.get(first_id(s))]
    dropped = {}
    if new:
        ids = sorted(set(first_id(s) for s in new))
        again, rdevs, reports = replay_vectors(ctx, confirm_exe, [(i, camp.texts[i]) for i in ids],
                                               {i: camp.srcs.get(i) for i in ids}, "confirm-" + camp.name)
        for rsig, text, crashed in reports:
            camp.sanitizer_reports.setdefault("sanitizer." + rsig, text)
            if crashed is None and rsig not in camp.exit_reports:
                camp.exit_reports.add(rsig)
                ctx.violation(sigmap("sanitizer." + rsig), "sanitizer report at exit of the harness (re-run):\n%s" % text)
        for tr, d in rdevs:                       # sanitizer aborts that only the re-run showed
            for lab in d.get("labels", []):
                if is_sanitizer(lab) and lab not in by_sig:
                    by_sig[lab] = {"n": 1, "first": (tr, d)}
        for s in new:
            got = again.get(first_id(s), set())
            if is_sanitizer(s) or s in got:
                continue
            aborted = sorted(x for x in got if is_sanitizer(x))
            dropped[s] = {"vector": first_id(s), "lines_in_first_run": by_sig[s]["n"], "labels_of_rerun": sorted(got),
                          "why": ("re-run of the vector aborted by a sanitizer: reported as %s" % aborted[0]) if aborted
                                 else "label did not repeat on the re-run of its vector"}
        flaky = sorted(s for s in dropped if not dropped[s]["why"].startswith("re-run of the vector aborted"))
        if flaky and not any(s not in dropped and not is_known(s) for s in by_sig) and not ctx.violations:
            raise vlib.MachineryError("deviation %s of vector %s did not reproduce on re-run (labels of the re-run: %s)" %
                                      (flaky[0], dropped[flaky[0]]["vector"], dropped[flaky[0]]["labels_of_rerun"]))
        for s in sorted(dropped):
            ctx.log("not reported: %s (vector %s): %s" % (sigmap(s), dropped[s]["vector"], dropped[s]["why"]))
            del by_sig[s]
        if dropped:
            ctx.notes.setdefault("unconfirmed_labels", {}).update({sigmap(s): v for s, v in dropped.items()})
    for sig in sorted(by_sig):
        if sigmap(sig) in [v[0] for v in ctx.violations]:
            continue                       # already reported by an earlier stage (plain calls of the sweep lines)
        tr, d = by_sig[sig]["first"]
        vid = d.get("id", -1)
        detail = [x for x in d.get("detail", []) if sig in x.get("labels", [])]
        text = "%s: %d deviating line(s); first: vector %s line %s of %s\n%s" % (
            sigmap(sig), by_sig[sig]["n"], vid, d.get("line"), tr, json.dumps(detail[:1], indent=1)[:2500])
        for k in sorted(camp.sanitizer_reports):
            if sig.endswith(k):            # "sanitizer.<kind>.<function>" or "oom.<fn>.sanitizer.<kind>.<function>"
                text += "\n" + camp.sanitizer_reports[k]
                break
        replay = json.dumps({"signature": sigmap(sig), "vector": camp.texts.get(vid, ""), "seed": ctx.seed,
                             "detail": detail[:1]}, indent=1)
        ctx.violation(sigmap(sig), text, replay_content=replay)
    if camp.not_executed:
        ctx.log("%s: %d vectors were not executed (behind the %d-th sanitizer abort of their shard)" %
                (camp.name, camp.not_executed, MAX_RESUME))
        ctx.notes.setdefault("vectors_not_executed_after_aborts", {})[camp.name] = camp.not_executed
    return {sigmap(s): v["n"] for s, v in by_sig.items()}


def split_vectors(text):
    """Harness input text -> [(vector id, text of that vector)]."""
    res = []
    for blk in re.split(r"(?m)^(?=V \d+)", text):
        m = re.match(r"V (\d+)", blk)
        if m:
            res.append((int(m.group(1)), blk))
    return res


def replay_vectors(ctx, exe, vectors, srcs, tag, seed=None):
    """Execute the vectors [(id, text)] in a harness run of their own (resumed behind sanitizer aborts) and validate
    the recorded lines.  -> ({vector id: labels of its lines; -1: labels of the end-of-process events},
    [(trace path, deviation)], [(sanitizer signature, report text, aborted vector id or None)])"""
    texts = dict(vectors)
    ids = [i for i, _ in vectors]
    tr, nl, _, _, reports, skipped = execute(exe, texts, ids, {k: v for k, v in srcs.items() if v},
                                             os.path.join(ctx.out, tag), ctx.seed if seed is None else seed, 300)
    if skipped:
        raise vlib.MachineryError("replay %s: more than %d sanitizer aborts" % (tag, MAX_RESUME))
    devs, _ = validate(tr, nl)
    by_id = {}
    for d in devs:
        by_id.setdefault(d.get("id", -1), set()).update(d.get("labels", []))
    for rsig, _, crashed in reports:
        if crashed is None:                      # report at exit (leaks): no crash event in the trace
            by_id.setdefault(-1, set()).add("sanitizer." + rsig)
    return by_id, [(tr, d) for d in devs], reports


def replay_vector(ctx, exe, vec_text, srcs, tag, seed=None):
    """All labels of a harness input given as text (one or more vectors)."""
    by_id, _, _ = replay_vectors(ctx, exe, split_vectors(vec_text), srcs, tag, seed=seed)
    return set().union(*by_id.values()) if by_id else set()


# ------------------------------------------------------------------ the check
def generate(ctx, cfg, spec="Legacy/LegacyGen.tla", **kw):
    r = ctx.model_check(spec, cfg, **kw)
    if r.violation:
        raise vlib.MachineryError("%s: invariant %s of the view model is violated (model bug):\n%s" %
                                  (spec, r.violation, r.out[-4000:]))
    vecs = parse_printed(r.out, "vec")
    if not vecs:
        raise vlib.MachineryError("%s printed no vectors:\n" % spec + r.out[-3000:])
    return vecs, r


def mixed_family(ctx):
    """LegacyMixGen.tla: answers alias^k addr^j whose address records are freely A or AAAA (records of the other
    family before / between records of the wanted family).  Vacuity: the patterns the family is for are members."""
    vm, rm = generate(ctx, "LegacyMixGen.cfg", spec="Legacy/LegacyMixGen.tla", workers=4, timeout=600)
    pats = set((v["fam"], tuple(r["type"] for r in v["msg"]["an"])) for v in vm)
    need = [("AAAA", "A"), ("A", "AAAA"), ("A", "AAAA", "A"), ("AAAA", "A", "AAAA"), ("AAAA", "AAAA", "A", "A"),
            ("CNAME", "AAAA", "A"), ("CNAME", "A", "AAAA", "A"), ("CNAME", "AAAA", "AAAA", "A", "A"),
            ("CNAME", "CNAME", "A", "A", "AAAA", "AAAA"), ("CNAME", "CNAME", "AAAA", "A", "AAAA", "A")]
    missing = [(f, p) for f in ("A", "AAAA") for p in need if (f, p) not in pats]
    n_a = sum(1 for v in vm if v["mix"]["a"])
    n_aaaa = sum(1 for v in vm if v["mix"]["aaaa"])
    if missing or not n_a or not n_aaaa:
        raise vlib.MachineryError("LegacyMixGen: the family lacks interleaved answers: missing %s (foreign record "
                                  "before a wanted one: a %d, aaaa %d messages)" % (missing[:4], n_a, n_aaaa))
    ctx.cov["mixed_family_messages"] = {"messages": len(vm), "other_family_before_wanted.a": n_a,
                                        "other_family_before_wanted.aaaa": n_aaaa}
    return vm, rm


def dedup(vecs):
    seen, res = set(), []
    for v in vecs:
        h = canon(v["msg"])
        if h not in seen:
            seen.add(h)
            res.append(v)
    return res


def corrupted_trace_selftest(ctx, exe, vec):
    """Flip one field of an accepted line: LegacyTrace must reject it."""
    txt = vector_text(1, vec)
    labels = replay_vector(ctx, exe, txt, {1: canon(vec["msg"])}, "selftest-ok")
    tr = os.path.join(ctx.out, "selftest-ok.ndjson")
    lines = open(tr).read().splitlines()
    ev = json.loads(lines[0])
    results = {"baseline_labels": sorted(labels)}
    mutations = []
    for i, c in enumerate(ev["calls"]):
        if c["fn"] == "a" and c["mode"] == "both" and c["items"]:
            mutations.append(("ttl+1", i, lambda c: c["items"][0].__setitem__("ttl", c["items"][0]["ttl"] + 1)))
            mutations.append(("drop_item", i, lambda c: (c["items"].pop(), c.__setitem__("n", c["n"] - 1))))
            mutations.append(("status", i, lambda c: c.__setitem__("st", "ENODATA")))
            mutations.append(("guard", i, lambda c: c.__setitem__("guard", 0)))
            mutations.append(("alias", i, lambda c: c["host"]["aliases"].reverse() if len(c["host"]["aliases"]) > 1
                              else c["host"]["aliases"].append("x.test")))
            break
    ok = True
    known = [k["signature"] for k in ctx.kf.get("known", []) if k["property"] == ctx.pid]
    if [x for x in labels if not any(re.search(k, x) for k in known)]:
        # the implementation under test already deviates on this line (mutant run): nothing to corrupt
        ctx.notes["corrupted_trace_selftest"] = {"skipped": "baseline line not accepted", "labels": sorted(labels)}
        return
    for name, i, fn in mutations:
        ev2 = json.loads(lines[0])
        fn(ev2["calls"][i])
        p = os.path.join(ctx.out, "selftest-%s.ndjson" % name)
        with open(p, "w") as f:
            f.write(json.dumps(ev2, separators=(",", ":")) + "\n")
            for l in lines[1:]:
                f.write(l + "\n")
        devs, _ = validate(p, len(lines))
        got = sorted(set(x for d in devs for x in d["labels"]) - labels)
        results[name] = got
        if not got:
            ok = False
    ctx.notes["corrupted_trace_selftest"] = results
    if not mutations or not ok:
        raise vlib.MachineryError("corrupted-trace self-test: LegacyTrace accepted a corrupted trace: %s" % results)


def run(ctx):
    t0 = time.time()
    exe = ctx.build_harness("legacy")
    ctx.log("harness built: %s (%.1fs)" % (exe, time.time() - t0))
    ctx.level = "model_checking"

    if ctx.replay:
        rp = json.load(open(ctx.replay))
        labels = replay_vector(ctx, exe, rp["vector"], {}, "replay", seed=rp.get("seed"))
        ctx.log("replay %s -> %s" % (ctx.replay, sorted(labels)))
        for lab in sorted(labels):
            ctx.violation(oom_sig(lab), "replay of %s reproduces %s" % (ctx.replay, oom_sig(lab)),
                          replay_path=ctx.replay)
        ctx.cov["traces_validated_against_impl"] = 1
        return

    # 1. model check the views over the message space and get the vectors
    vecs, r = generate(ctx, "LegacyGen_quick.cfg", workers=8, timeout=600)
    ctx.log("LegacyGen (BFS): %d messages, all view invariants hold (%.1fs)" % (len(vecs), r.wall))
    # exhaustive alias chains of 0..3 links with independently chosen (also non-monotonic) TTLs + addresses
    vc, rc_ = generate(ctx, "LegacyGen_chain.cfg", workers=8, timeout=600)
    ctx.log("LegacyGen (BFS, alias chains x TTL orders): %d messages, all view invariants hold (%.1fs)" %
            (len(vc), rc_.wall))
    have = set(canon(v["msg"]) for v in vecs)
    vecs += [v for v in vc if canon(v["msg"]) not in have]
    n_chain = len(vc)
    # address records of both families in one answer, every family pattern of up to 5 address records behind 0..2 aliases
    vm, rm = mixed_family(ctx)
    ctx.log("LegacyMixGen (BFS, A/AAAA records interleaved): %d messages (%d / %d with a record of the other family "
            "before one wanted by ares_parse_a_reply / ares_parse_aaaa_reply), all view invariants hold (%.1fs)" %
            (len(vm), ctx.cov["mixed_family_messages"]["other_family_before_wanted.a"],
             ctx.cov["mixed_family_messages"]["other_family_before_wanted.aaaa"], rm.wall))
    have = set(canon(v["msg"]) for v in vecs)
    vecs += [v for v in vm if canon(v["msg"]) not in have]
    n_bfs = len(vecs)
    if not ctx.quick:
        vs, r2 = generate(ctx, "LegacyGen_sim.cfg", workers=8, timeout=900, simulate=6000, depth=10,
                          seed=ctx.seed)
        vs = dedup(vs)
        ctx.log("LegacyGen (-simulate, rich alphabets): %d distinct messages (%.1fs)" % (len(vs), r2.wall))
        have = set(canon(v["msg"]) for v in vecs)
        vecs += [v for v in vs if canon(v["msg"]) not in have]
    # TLC's workers print in a scheduling-dependent order: fix the numbering of the vectors
    vecs.sort(key=lambda v: (v["fam"], len(v["msg"]["an"]) + len(v["msg"]["ns"]) + len(v["msg"]["ar"]),
                             canon(v["msg"])))
    fam_count = {}
    for v in vecs:
        fam_count[v["fam"]] = fam_count.get(v["fam"], 0) + 1

    # 2. choose the vectors whose bytes are also truncated / mutated (workload selection only)
    rng = random.Random(ctx.seed)
    per_fam = 24 if ctx.quick else 100
    nflips = 150 if ctx.quick else 300
    mut_ids = set()
    by_fam = {}
    for i, v in enumerate(vecs):
        if len(v["msg"]["an"]) >= 2:
            by_fam.setdefault(v["fam"], []).append(i)
    for fam, ids in sorted(by_fam.items()):
        mut_ids |= set(rng.sample(ids, min(per_fam, len(ids))))

    camp = Campaign(ctx, exe, "main")
    for i, v in enumerate(vecs):
        if i in mut_ids:
            camp.add(i + 1, v, mut_calls=ALL_MUT_CALLS, trunc=1, nflips=nflips)
        else:
            camp.add(i + 1, v)
    wire = wire_cases()
    for j, b in enumerate(wire):
        vid = len(vecs) + 1 + j
        camp.texts[vid] = ("V %d\nB %s\n" % (vid, b.hex()) +
                           "".join("C %s %s %d\n" % c for c in ALL_MUT_CALLS + [("a", "host", 0), ("ptr", "noaddr", 0)])
                           + "E\n")
    t1 = time.time()
    camp.run(timeout=1500)
    ctx.log("harness + LegacyTrace: %d byte strings (%d unmutated vectors, %d mutated/truncated), %d legacy calls, "
            "%d lines deviate (%.1fs)" % (len(vecs) + len(wire) + camp.mutated, len(vecs), camp.mutated,
                                          camp.calls, len(camp.devs), time.time() - t1))

    # 3. verdicts
    sigs = report_deviations(ctx, camp, exe)
    ctx.notes["deviation_signatures"] = sigs

    # vacuity: the conformant action must have explained lines (coverage is collected on shard 0)
    ctx.notes["trace_coverage_shard0"] = {k: list(v) for k, v in camp.coverage.items()}
    if camp.accepted_lines == 0 and not ctx.violations:
        raise vlib.MachineryError("LegacyTrace: no line was explained by TConform (vacuous validation)")

    # 4. corrupted-trace self-test (one accepted line, five corruptions)
    st = [v for v in vecs if v["fam"] == "A" and len(v["msg"]["an"]) == 3
          and v["msg"]["an"][0]["type"] == "CNAME" and v["msg"]["an"][0]["t"] == "n1.test"
          and v["msg"]["an"][1]["type"] == "A" and v["msg"]["an"][2]["type"] == "A" and not v["msg"]["ns"]]
    corrupted_trace_selftest(ctx, exe, st[0])

    ctx.cov["traces_validated_against_impl"] = camp.accepted_lines
    ctx.cov["evaluations"] = len(vecs) + len(wire) + camp.mutated
    ctx.cov["hand_written_wire_cases"] = len(wire)
    ctx.cov["legacy_calls"] = camp.calls
    ctx.cov["exhaustive"] = False             # the byte mutations are samples
    ctx.cov["message_space_exhaustive"] = True  # LegacyGen_quick.cfg is a complete BFS of its bounded space
    ctx.cov["distinct_nontrivial"] = camp.nontrivial
    ctx.cov["rule"] = ("one trace = one byte string with all planned legacy calls on it; distinct by hash of the "
                       "recorded line without its id; non-trivial = the bytes were rejected by the record parser "
                       "(mutation) or the parsed answer section is non-empty")
    ctx.cov["messages_model_checked"] = n_bfs
    ctx.cov["alias_chain_messages"] = n_chain
    ctx.cov["messages_per_family"] = fam_count
    ctx.cov["mutated_vectors"] = len(mut_ids)
    for v in (vecs[len(vecs) // 3], vecs[len(vecs) // 2], vecs[-1]):
        ctx.sample({"fam": v["fam"], "msg": v["msg"]})
    ctx.assumptions += [
        "messages are built through the public ares_dns_record setters and ares_dns_write; the reference for "
        "'what the record API reports' is ares_dns_parse + getters on the same bytes (recorded in every trace line)",
        "class filter of the classic API (IN; TXT/CAA also CHAOS), alias-only A/AAAA answers = success with empty "
        "address list, addrttl TTL = min(record TTL, all alias TTLs) as signed 32-bit, h_name unconstrained when "
        "the aliases do not form a regular chain: modelling choices where the man pages are silent (docs/C18.md)",
        "malformed-message statuses = {EBADRESP, EBADNAME, EFORMERR} (the record parser's rejection codes passed through)",
        "allocation balance is measured with a counting allocator installed via ares_library_init_mem; "
        "LeakSanitizer runs once at the end of each harness process",
        "allocation-failure dimension: only allocation requests made inside the ares_parse_*_reply call are counted "
        "and failed (message construction, the reference ares_dns_parse and the free functions are harness plumbing)",
    ]

    # 5. allocation-failure dimension (checks/legacy_oom.py): every legacy entry point x the message family of
    #    LegacyOomGen.tla x every allocation index of the call, decided by LegacyTrace!OomLabels
    import legacy_oom
    legacy_oom.run(ctx, exe, oom_sig)
    ctx.cov["rule"] += ("; allocation-failure dimension: one fault run per (message, planned call, allocation index n of "
                        "the call), non-trivial = the n-th allocation request was made and failed")
