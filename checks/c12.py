"""C12 - search-list expansion follows resolv.conf semantics (Search facet)."""
import mutators
import simlib
import vlib

KEEP = {"init", "call", "sk", "cbb", "crash"}
FACETS = [("SearchTrace.tla", "SearchTrace.cfg", KEEP, {"send", "recv", "open", "connect"})]


def run(ctx):
    r = ctx.model_check("Resolver/SearchModel.tla", "SearchModel.cfg", workers=4, timeout=300)
    if r.violation:
        raise vlib.MachineryError("SearchModel.tla violates %s" % r.violation)
    gens = [{"module": "Gen_C12.tla", "cfg": "Gen_C12_quick.cfg" if ctx.quick else "Gen_C12_thorough.cfg", "name": "bfs"},
            # environment overrides (LOCALDOMAIN, RES_OPTIONS) and alias-only answers, on a smaller name/domain box
            {"module": "Gen_C12.tla", "cfg": "Gen_C12_env.cfg", "name": "env"}]
    simlib.engine_check(ctx, gens, FACETS, labels=("c12.",), selftests=mutators.SEARCH)
