"""C17 - DNS cookies follow the RFC 7873 client state machine (Cookie facet)."""
import mutators
import simlib

KEEP = {"init", "call", "adv", "sk", "env", "cbb", "crash"}
FACETS = [("CookieTrace.tla", "CookieTrace.cfg", KEEP, None)]


def run(ctx):
    import vlib
    r = ctx.model_check("Resolver/CookieModel.tla", "CookieModel.cfg", workers=8, timeout=900)
    if r.violation:
        raise vlib.MachineryError("CookieModel.tla violates %s" % r.violation)
    # requests left unanswered across a client-cookie change, answered late
    late = {"module": "Gen_C17.tla", "cfg": "Gen_C17_late.cfg", "name": "late"}
    if ctx.quick:
        gens = [{"module": "Gen_C17.tla", "cfg": "Gen_C17_quick.cfg", "name": "bfs"}, late]
    else:
        gens = [{"module": "Gen_C17.tla", "cfg": "Gen_C17_thorough.cfg", "name": "bfs", "timeout": 1500},
                {"module": "Gen_C17.tla", "cfg": "Gen_C17_sim.cfg", "name": "sim", "simulate": 3000, "depth": 24}, late]
    simlib.engine_check(ctx, gens, FACETS, labels=("c17.",), selftests=mutators.COOKIE)
