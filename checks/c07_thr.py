"""C07, event-thread half (./check C07_THR; also called by checks/c07.py through
run_threaded(ctx)).

"With the built-in event thread no application action is needed at all: every query
completes within its retry budget even if no packet ever arrives, on every event
backend and regardless of whether it reused an idle connection."

1. TLC: EvLoop.tla (the loop as coded, incl. when the wake pipe is written).
   Repaired must satisfy NoOutwait and `pending ~> done`; AsCoded must exhibit the two
   counterexample shapes (sensitivity; their histories name the harness scenarios).
   Threads.tla (contract): NoOutwait + Completes on the small liveness configuration.
2. harness/thr (plain build): backend x connection reuse x arrival phase with a silent
   server.  Oracles: (a) the callback arrives within budget*2 + 2 s of wall clock
   (the defect looked for is "never"); (b) the recorded sync/phase trace is validated
   by TLC against ThreadsTrace.tla, whose NoOutwait rule compares the sleep the event
   thread had planned with the earliest pending deadline (both numbers computed by the
   library) and the observed time of its next sign of life.
"""
import json
import os

import thrlib
import vlib

BACKENDS = ["epoll", "poll", "select"]
REUSE = ["fresh", "idle", "busy_earlier", "busy_later", "tcp_idle"]
PHASES = ["timeout", "wait", "inwait", "woken", "process"]
LONGSLEEP = ["longsleep1200", "longsleep2300"]
LONG_TOLERANCE_MS = 300      # completion of a longsleep request: budget + this
ETIMEOUT = 12

# what EvLoop(AsCoded) says: the event thread has computed its sleep (phases wait /
# inwait) and the request reuses an open UDP connection => no wake
MODEL_NEVER = {("idle", "wait"), ("idle", "inwait")}
MODEL_LATE = {("busy_later", "wait"), ("busy_later", "inwait")}


def models(ctx):
    thr = {}
    # the loop as coded: sensitivity runs, and the repaired loop
    r = thrlib.model_check(ctx, "EvLoop.tla", "EvLoop_never.cfg", expect="NoOutwaitNever", workers=2, timeout=120)
    thr["never"] = thrlib.cex_actions(r)
    r = thrlib.model_check(ctx, "EvLoop.tla", "EvLoop_late.cfg", expect="NoOutwaitLate", workers=2, timeout=120)
    thr["late"] = thrlib.cex_actions(r)
    r = thrlib.model_check(ctx, "EvLoop.tla", "EvLoop_live.cfg", expect="temporal", workers=2, timeout=120)
    for so in ("TRUE", "FALSE"):
        thrlib.model_check(ctx, "EvLoop.tla", "EvLoop_Repaired_%s_safe.cfg" % so, workers=4, timeout=300, coverage=(so == "TRUE"))
    thrlib.model_check(ctx, "EvLoop.tla", "EvLoop_Repaired_live.cfg", workers=4, timeout=300)
    if not ctx.quick:
        for so in ("TRUE", "FALSE"):
            thrlib.model_check(ctx, "EvLoop.tla", "EvLoop_Repaired_%s.cfg" % so, workers=8, timeout=900)
    # contract: NoOutwait (invariant) and Completes / WaitReturns (liveness)
    thrlib.model_check(ctx, "Threads.tla", "Threads_liveq.cfg" if ctx.quick else "Threads_live.cfg", workers=8, timeout=1500)
    # the counterexamples must be the shapes the scenario matrix implements
    nv = thr["never"]
    if not ("Answer(1)" in nv and nv[-3:] == ["CLock", "CBody", "CUnlock"] and "EvTimeout" in nv):
        raise vlib.MachineryError("unexpected shape of the EvLoop 'never' counterexample: %s" % nv)
    lt = thr["late"]
    if not ("Tick" in lt and "Answer(1)" not in lt and lt[-3:] == ["CLock", "CBody", "CUnlock"]):
        raise vlib.MachineryError("unexpected shape of the EvLoop 'late' counterexample: %s" % lt)
    ctx.notes["evloop_counterexamples"] = thr
    ctx.sample({"model": "EvLoop AsCoded", "violates": "NoOutwaitNever", "history": nv,
                "replayed_as": "c07.<backend>.idle.{wait,inwait}"})


def scenario(exe, ctx, b, r, p, attempt=0):
    pref = os.path.join(ctx.out, "c07_%s_%s_%s_%d" % (b, r, p, attempt))
    res = thrlib.run_harness(exe, ["c07", "--backend", b, "--reuse", r, "--phase", p], pref, timeout=40)
    out = [x for x in res["results"] if x.get("result") in ("c07", "hang")]
    if not out and res["crashed"]:
        return {"result": "crash", "rc": res["rc"], "stderr": res["stderr"][-2500:], "key": (b, r, p), "trace": res["trace"],
                "setup_ok": 1}
    if not out and res["rc"] == 124:
        return {"result": "hang", "label": "c07.%s.%s.%s" % (b, r, p), "key": (b, r, p), "trace": res["trace"], "setup_ok": 1}
    if not out:
        raise vlib.MachineryError("c07 scenario %s/%s/%s produced no result (rc=%s): %s" % (b, r, p, res["rc"], res["stderr"][-800:]))
    j = out[-1]
    j["trace"] = res["trace"]
    j["key"] = (b, r, p)
    return j


def run_threaded(ctx):
    exe = ctx.build_harness("thr", flavor="plain")
    models(ctx)

    combos = [(b, r, p) for b in BACKENDS for r in REUSE for p in PHASES]
    # the loop computes its sleep when the earliest deadline has already passed (it was held
    # before ares_timeout() until then): an expired deadline must not read as "no deadline"
    combos += [(b, "overdue", "timeout") for b in BACKENDS]
    # one long planned sleep (>= 1 s: whole seconds and a sub-second part), nothing else happening
    combos += [(b, r, "any") for b in BACKENDS for r in LONGSLEEP]
    ctx.log("C07b: %d scenarios (backend x reuse x phase), silent server" % len(combos))
    results = thrlib.pmap(lambda c: scenario(exe, ctx, *c), combos, workers=8)

    # scenarios whose set-up did not establish the situation are retried once, then dropped
    final = []
    skipped = []
    for j in results:
        if j.get("result") == "c07" and not j["setup_ok"]:
            j2 = scenario(exe, ctx, *j["key"], attempt=1)
            if j2.get("result") == "c07" and not j2["setup_ok"]:
                skipped.append((j["key"], j2.get("why")))
                continue
            j = j2
        final.append(j)
    if len(skipped) > len(combos) // 5:
        raise vlib.MachineryError("too many C07b scenarios could not be set up: %s" % skipped[:5])

    # oracle (a): completion against "never"
    suspects = []
    for j in final:
        b, r, p = j["key"]
        if j.get("result") == "hang":
            suspects.append((j, "hang"))
        elif j.get("result") == "crash":
            suspects.append((j, "crash"))
        elif not j["completed"]:
            suspects.append((j, "never"))
        elif j["cbcount"] != 1 or j["status"] != ETIMEOUT:
            suspects.append((j, "wrong_result"))
        elif r in LONGSLEEP and j["elapsed_ms"] > j["budget_ms"] + LONG_TOLERANCE_MS:
            suspects.append((j, "overslept"))
    observed_never = set()
    if len(suspects) > 12:
        # something is badly broken: confirming a dozen is enough
        ctx.notes["suspects_not_rechecked"] = len(suspects) - 12
        suspects = suspects[:12]
    reruns = thrlib.pmap(lambda s: scenario(exe, ctx, *s[0]["key"], attempt=2), suspects, workers=6)
    for (j, what), j2 in zip(suspects, reruns):
        b, r, p = j["key"]
        # a rejection counts only if it reproduces
        again = (j2.get("result") in ("hang", "crash")) or (j2.get("result") == "c07" and j2["setup_ok"] and (
            (what == "never" and not j2["completed"]) or
            (what == "wrong_result" and (j2["cbcount"] != 1 or j2["status"] != ETIMEOUT)) or
            (what == "overslept" and j2["completed"] and j2["elapsed_ms"] > j2["budget_ms"] + LONG_TOLERANCE_MS)))
        if not again:
            ctx.notes.setdefault("unreproduced", []).append({"scenario": list(j["key"]), "what": what})
            continue
        final.append(j2)
        if what == "never":
            observed_never.add((r, p))
            sig = ("c07.evthread.idle_reuse.nowake.%s" % p) if r == "idle" else ("c07.evthread.%s.never.%s" % (r, p))
            text = ("backend %s, connection %s, request sent while the event thread was at phase '%s' (its planned wait: %s ms, "
                    "0 = unlimited): no callback within %d ms (retry budget %d ms); after a manual wake-up of the event "
                    "thread the request %s" % (b, r, p, j["wait_tmo_at_send"], j["limit_ms"], j["budget_ms"],
                                               "timed out normally" if j["after_kick"] else "still did not complete"))
        elif what == "overslept":
            sig = "c07.evthread.%s.overslept.%s" % (r, p)
            text = ("backend %s: a single request with timeout %d ms and one try, silent server, no other activity, got its "
                    "ETIMEOUT after %d ms (and %d ms on the re-run); tolerance %d ms" %
                    (b, j["budget_ms"], j["elapsed_ms"], j2["elapsed_ms"], LONG_TOLERANCE_MS))
        elif what == "crash":
            sig = "c07.evthread.%s.crash.%s" % (r, p)
            text = "scenario %s: harness process died (rc=%s):\n%s" % (j["key"], j.get("rc"), j.get("stderr"))
        elif what == "hang":
            sig = "c07.evthread.%s.hang.%s" % (r, p)
            text = "scenario %s hung (watchdog): %s" % (j["key"], json.dumps({k: v for k, v in j.items() if k != "key"}))
        else:
            sig = "c07.evthread.%s.result.%s" % (r, p)
            text = "callback count %d status %d (expected exactly one ETIMEOUT)" % (j["cbcount"], j["status"])
        ctx.violation(sig, text, replay_content=json.dumps(
            {"cmd": "verif_thr c07 --backend %s --reuse %s --phase %s" % (b, r, p), "result": {k: v for k, v in j.items() if k != "key"}}))

    # oracle (b): trace validation (lock discipline + per-request rules + NoOutwait)
    traces = [j["trace"] for j in final if j.get("result") == "c07"]
    nruns, viols = thrlib.validate_traces(ctx, traces, "c07")
    ctx.cov["traces_validated_against_impl"] += nruns
    observed_late = set()
    cat = os.path.join(ctx.out, "c07.all.ndjson")
    seen = set()
    for (rule, label, line, ctxt) in viols:
        parts = label.split(".")           # c07.<backend>.<reuse>.<phase>
        b, r, p = parts[1], parts[2], parts[3]
        if rule == "c07.outwait.never":
            observed_never.add((r, p))
            sig = ("c07.evthread.idle_reuse.nowake.%s" % p) if r == "idle" else ("c07.evthread.%s.never.%s" % (r, p))
        elif rule == "c07.outwait.unlimited_sleep_with_request_outstanding":
            observed_never.add((r, p))
            sig = "c07.evthread.%s.unlimited_sleep.%s" % (r, p)
        elif rule == "c07.outwait.late":
            observed_late.add((r, p))
            sig = "c07.evthread.%s.late.%s" % (r, p)
        elif rule == "c07.outwait.overslept":
            sig = "c07.evthread.%s.overslept.%s" % (r, p)
        else:
            sig = "c07.trace.%s" % rule
        if (sig, b) in seen:
            continue
        seen.add((sig, b))
        if rule in ("c07.outwait.late", "c07.outwait.overslept"):
            # observed time is involved: reproduce before reporting
            j2 = scenario(exe, ctx, b, r, p, attempt=3)
            n2, v2 = thrlib.validate_traces(ctx, [j2["trace"]], "c07_retry_%s_%s_%s" % (b, r, p))
            if not any(x[0] == rule for x in v2):
                ctx.notes.setdefault("unreproduced", []).append({"scenario": [b, r, p], "what": rule})
                continue
        ctx.violation(sig, "trace rule %s broken in run %s (backend %s) at line %d:\n%s" % (rule, label, b, line, ctxt),
                      replay_content=thrlib.run_trace_text(cat, label))

    # self-test: an accepted trace with one field flipped must be rejected by the C07 rule
    good = [j for j in final if j.get("result") == "c07" and j["key"][1] == "fresh" and j["key"][2] == "inwait" and j["completed"]]
    if good:
        corrupt_selftest(ctx, good[0]["trace"])

    # comparison with the model
    ctx.notes["c07b"] = {
        "scenarios": len(final), "skipped": [list(k) + [w] for (k, w) in skipped],
        "impl_never": sorted(map(list, observed_never)), "impl_late": sorted(map(list, observed_late)),
        "model_ascoded_never": sorted(map(list, MODEL_NEVER)), "model_ascoded_late": sorted(map(list, MODEL_LATE)),
        # which design model the implementation behaves like on this matrix
        "matches_model": ("EvLoop AsCoded" if (observed_never == MODEL_NEVER and observed_late == MODEL_LATE) else
                          "EvLoop Repaired" if (not observed_never and not observed_late) else "neither"),
        "elapsed_ms": {"%s.%s.%s" % j["key"]: j.get("elapsed_ms") for j in final if j.get("result") == "c07"},
    }
    ok = [j for j in final if j.get("result") == "c07" and j["completed"]]
    ctx.cov["evaluations"] += len(final)
    ctx.cov["distinct_nontrivial"] += len({j["key"] for j in final})
    ctx.cov["rule"] = ("one scenario per (backend, connection reuse situation, event-loop phase at which the request "
                       "arrives); all are non-trivial: real sockets, silent server, the request must time out by the event "
                       "thread alone; distinct by that triple")
    for j in (ok[:1] + [x for x in final if x.get("result") == "c07" and not x["completed"]][:1] +
              [x for x in final if x["key"][1] == "busy_later" and x["key"][2] == "inwait"][:1]):
        ctx.sample({k: v for k, v in j.items() if k not in ("key", "trace")})
    ctx.assumptions.append("C07b: wall-clock is used only against 'never' (limit = 2*budget + 2 s) and, for 'late', only "
                           "together with a scheduling-independent comparison of library-computed numbers (planned sleep vs "
                           "earliest pending deadline, 100 ms slack)")
    ctx.assumptions.append("C07b: the in-process DNS server and the loopback interface deliver/ignore datagrams as "
                           "intended; a scenario whose set-up could not be established is retried, then skipped (listed)")


def corrupt_selftest(ctx, trace):
    """fresh/inwait: the send's interest change wakes the sleeping event thread at once.  Make its first
    sign of life after the `dl` event 5 s late: the NoOutwait rule must now fire."""
    lines = [ln for ln in open(trace) if ln.strip()]
    ev = json.loads(lines[0])["ev"]
    n0, v0 = thrlib.validate_traces(ctx, [trace], "c07_selftest_orig")
    if any(x[0].startswith("c07.outwait") for x in v0):
        return          # not an accepted trace (mutated tree): nothing to show
    # the deadline observation is moved into the send's critical section (before the wake is
    # written) and every later event of the event thread is delayed by 5 s
    dl = [ln for ln in lines if '"k":"dl"' in ln and json.loads(ln).get("id") == 0]
    out = []
    state = 0
    for ln in lines:
        j = json.loads(ln)
        if dl and ln == dl[0]:
            continue
        if state == 0 and j.get("k") == "call" and j.get("api") == "send":
            state = 1
        elif state == 1 and j.get("k") == "lock" and j.get("m") == "chan" and j.get("t") != ev and dl:
            out.append(ln)
            out.append(dl[0])
            state = 2
            continue
        elif state == 2 and j.get("t") == ev and "ms" in j:
            j["ms"] += 5000
            ln = json.dumps(j) + "\n"
        out.append(ln)
    if state != 2:
        raise vlib.MachineryError("C07 corruption self-test: no place to corrupt in %s" % trace)
    f = os.path.join(ctx.out, "c07_selftest_corrupt.ndjson")
    open(f, "w").write("".join(out))
    n1, v1 = thrlib.validate_traces(ctx, [f], "c07_selftest_corrupt")
    rules = sorted({x[0] for x in v1})
    if "c07.outwait.never" not in rules:
        raise vlib.MachineryError("C07 corruption self-test: delayed wake-up was accepted (%s)" % rules)
    ctx.notes["corrupted_trace_selftest"] = {"event_thread_first_event_after_send_delayed_5s": rules}


def replay(ctx):
    """--replay: a JSON file with "cmd": "verif_thr c07 --backend B --reuse R --phase P" (re-executed
    against the current tree), or an ndjson trace (re-validated by TLC)."""
    txt = open(ctx.replay).read()
    exe = ctx.build_harness("thr", flavor="plain")
    if txt.lstrip().startswith('{"k":'):
        n, viols = thrlib.validate_traces(ctx, [ctx.replay], "replay")
        ctx.cov["traces_validated_against_impl"] += n
        for (rule, label, line, ctxt) in viols:
            ctx.violation("c07.trace.%s" % rule, "replayed trace %s: rule %s at line %d\n%s" % (label, rule, line, ctxt),
                          replay_path=ctx.replay)
        return
    j = json.loads(txt)
    a = j.get("cmd", "").split()
    opt = {a[i]: a[i + 1] for i in range(len(a) - 1) if a[i].startswith("--")}
    b, r, p = opt.get("--backend", "epoll"), opt.get("--reuse", "idle"), opt.get("--phase", "inwait")
    res = scenario(exe, ctx, b, r, p, attempt=9)
    ctx.log("replay result: %s" % json.dumps({k: v for k, v in res.items() if k != "key"}))
    ctx.cov["evaluations"] += 1
    if res.get("result") == "c07" and res["setup_ok"] and not res["completed"]:
        sig = ("c07.evthread.idle_reuse.nowake.%s" % p) if r == "idle" else ("c07.evthread.%s.never.%s" % (r, p))
        ctx.violation(sig, "replay: no callback within %d ms" % res["limit_ms"], replay_path=ctx.replay)
    n, viols = thrlib.validate_traces(ctx, [res["trace"]], "replay")
    ctx.cov["traces_validated_against_impl"] += n
    for (rule, label, line, ctxt) in viols:
        sig = {"c07.outwait.never": ("c07.evthread.idle_reuse.nowake.%s" % p) if r == "idle" else "c07.evthread.%s.never.%s" % (r, p),
               "c07.outwait.late": "c07.evthread.%s.late.%s" % (r, p)}.get(rule, "c07.trace.%s" % rule)
        ctx.violation(sig, "replay: trace rule %s at line %d\n%s" % (rule, line, ctxt), replay_path=ctx.replay)
    ctx.cov["states"] = max(ctx.cov["states"], 1)
    ctx.cov["transitions"] = max(ctx.cov["transitions"], 1)
    ctx.sample({k: v for k, v in res.items() if k not in ("key", "trace")})


def run(ctx):
    if ctx.replay:
        return replay(ctx)
    run_threaded(ctx)
