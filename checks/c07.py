"""C07 - decided on the Retry facet (Retry.tla: retry budget/timing C06, server selection C09, timers C07)."""
import mutators
import simlib
import vlib

RT_KEEP = {"init", "call", "ret", "adv", "sk", "env", "srv", "cbb", "hint", "crash"}
FACETS = [("RetryTrace.tla", "RetryTrace.cfg", RT_KEEP, None)]
# c07.*: hints and overdue deadlines.  A retransmission or completion that is owed when a processing call returns is
# the same clause seen from the other side ("processing the channel ... retries or fails the query"): a query left
# in that state has no deadline any more and can never complete.
LABELS = ("c07.", "c06.retry_not_performed", "c06.completion_not_delivered")


def run(ctx):
    # RetryModel3*: the application replaces the server list while the query is outstanding (sequential destruction)
    for cfgname in ("RetryModel.cfg", "RetryModel2.cfg", "RetryModel3q.cfg" if ctx.quick else "RetryModel3.cfg"):
        r = ctx.model_check("Resolver/RetryModel.tla", cfgname, workers=8, timeout=1500)
        if r.violation:
            raise vlib.MachineryError("RetryModel.tla violates %s" % r.violation)
    lat = {"module": "GenLatency.tla", "cfg": "GenLatency.cfg", "name": "latency"}
    # single-request deep paths: retransmissions, late answers to earlier transmissions, further deadlines
    deep = {"module": "Gen_C01.tla", "cfg": "Gen_C01_deep.cfg", "name": "deep"}
    # several datagrams read by one processing call
    batch = {"module": "GenBatch.tla", "cfg": "GenBatch.cfg", "name": "batch"}
    # back-off arithmetic: dozens of passes over the server list (more than the width of the type the doubling uses)
    tcpfail = {"module": "GenTcpFail.tla", "cfg": "GenTcpFail.cfg", "name": "tcpfail"}   # write failures on TCP connections
    backoff = {"module": "GenBackoff.tla", "cfg": "GenBackoff.cfg", "name": "backoff"}
    if ctx.quick:
        gens = [{"module": "Gen_C07.tla", "cfg": "Gen_C07_quick.cfg", "name": "bfs"}, lat, deep, batch, backoff, tcpfail]
    else:
        gens = [{"module": "Gen_C07.tla", "cfg": "Gen_C07_thorough.cfg", "name": "bfs"},
                {"module": "Gen_C07.tla", "cfg": "Gen_C07_sim.cfg", "name": "sim", "simulate": 2000, "depth": 14}, lat, deep, batch, backoff, tcpfail]
    simlib.engine_check(ctx, gens, FACETS, labels=LABELS, selftests=mutators.RETRY)
    extra(ctx)


def extra(ctx):
    # event-thread half ("no application action is needed at all"): Threads/EvLoop specs + real event thread
    import c07_thr
    c07_thr.run_threaded(ctx)
