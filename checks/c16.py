"""C16 - configuration is saved, duplicated and re-applied losslessly; user settings win.

TLC (specs/Config/ConfigOps.tla) checks UserWins / DupEq / SaveInit / CsvFixpoint on the specification and
enumerates scenarios (option mask x values x ports x system profile x hostname; setters; reinit points; dup /
save+init / csv round trip) with the expected channel after every step.  harness/cfg replays every scenario on
fresh channels of the real library; this module compares every observation with the specification and the
copies with their sources.
"""
import json
import os
import sys
import time

ROOT = os.path.dirname(os.path.dirname(os.path.abspath(__file__)))
sys.path.insert(0, os.path.join(ROOT, "harness", "cfg"))
import cfgbind as B  # noqa: E402
import vlib  # noqa: E402

PROFILES = {
    "P_empty": [],
    "P_basic": ["ns_a"],
    "P_full": ["ns_a", "ns_6", "search_cd", "sort_1", "opt_multi", "opt_usevc", "lookup_bf"],
    "P_alt": ["ns_b", "ns_6p", "search_b", "sort_2", "opt_ndots0", "opt_timeout3", "opt_attempts2", "lookup_b"],
    "P_junk": ["junk_binary", "ns_a", "ns_bad", "search_cd", "opt_unknown", "sort_1", "comment_hash", "opt_multi",
               "junk_lone", "opt_usevc", "lookup_junk", "lookup_bf", "junk_keyword"],
    "P_env": ["ns_b", "search_cd", "opt_ndots2"],
    "P_ll": ["ns_a", "ns_ll", "opt_rotate"],
}
PROFILE_ENV = {"P_env": {"LOCALDOMAIN": "l1.example", "RES_OPTIONS": "retrans:4"}}
# ns_bad texts that are harmless at reinit (the link-local ones are C15's known finding KF-C15-5)
NS_BAD_SAFE = ["nameserver 999.1.1.1", "nameserver foo", "nameserver 1.2.3.4:", "nameserver [1.2.3.4",
               "nameserver fec0::1", "nameserver 1.2.3.4.5"]
# junk texts that are C15's known findings (search ',' etc.) are not part of the C16 profiles

SRV_TEXT = {
    "s4": ["10.0.0.1", "[10.0.0.1]", "dns://10.0.0.1"],
    "s4e": ["10.0.0.2:54", "dns://10.0.0.2:54", "[10.0.0.2]:54"],
    "s4d": ["dns://10.0.0.3:55?tcpport=56"],
    "s6": ["[2001:db8::1]", "2001:db8::1", "dns://[2001:db8::1]"],
    "s6e": ["[2001:db8::2]:54", "dns://[2001:db8::2]:54"],
    "s6d": ["dns://[2001:db8::3]:55?tcpport=56"],
    "sl": ["[fe80::1]%lo", "fe80::1%lo", "dns://[fe80::1%lo]"],
    "sle": ["[fe80::2]:54%lo", "dns://[fe80::2%lo]:54"],
    "sld": ["dns://[fe80::3%lo]:55?tcpport=56"],
    # interface name of the maximum legal length (virtual interface table of the harness); the classic forms go
    # through the bounded nameserver parser, the dns:// form through the URI parser
    "sL": ["[fe80::4]%verylongiface01", "fe80::4%verylongiface01", "dns://[fe80::4%verylongiface01]"],
    "sLe": ["[fe80::5]:54%verylongiface01", "dns://[fe80::5%verylongiface01]:54"],
    "sLd": ["dns://[fe80::6%verylongiface01]:55?tcpport=56"],
    # extreme ports (MaxPort of ConfigNum.tla): five digits in every port field of the three text forms
    "s4x": ["10.0.0.4:65535", "[10.0.0.4]:65535", "dns://10.0.0.4:65535", "dns://10.0.0.4:65535?tcpport=65535"],
    "s6x": ["dns://[2001:db8::4]:1?tcpport=65535", "dns://[2001:db8::4]:00001?tcpport=65535"],
}
VALS = {
    1: dict(flags=["EDNS"], timeout=1500, tries=2, ndots=4, servers=["10.9.9.9"], domains=["u.example"], lookups="f",
            sortlist=["11.0.0.0/8"], sndbuf=65536, rcvbuf=32768, ednspsz=4096, udp_max_queries=10, maxtimeout=9000,
            qcache_max_ttl=300, retry=[5, 1000]),
    2: dict(flags=["PRIMARY", "EDNS", "NOALIASES"], timeout=250, tries=7, ndots=0, servers=["10.0.0.3", "10.0.0.1"],
            domains=["u1.example", "u2.example"], lookups="bf", sortlist=["12.0.0.0/8", "2001:db8:1::/48"], sndbuf=1024,
            rcvbuf=2048, ednspsz=512, udp_max_queries=1, maxtimeout=5000, qcache_max_ttl=0, retry=[0, 0]),
    3: dict(flags=[], timeout=-1, tries=0, ndots=-1, servers=[], domains=[], lookups="b", sortlist=[], sndbuf=0,
            rcvbuf=-1, ednspsz=0, udp_max_queries=0, maxtimeout=0, qcache_max_ttl=0, retry=[1, 1]),
}
PORTS = {"none": (0, 0), "equal": (54, 54), "differ": (55, 56), "udponly": (57, 0)}
FIELD_BIT = {"flags": "FLAGS", "timeout": "TIMEOUTMS", "tries": "TRIES", "ndots": "NDOTS", "udp_port": "UDP_PORT",
             "tcp_port": "TCP_PORT", "servers": "SERVERS", "domains": "DOMAINS", "lookups": "LOOKUPS",
             "sortlist": "SORTLIST", "sndbuf": "SOCK_SNDBUF", "rcvbuf": "SOCK_RCVBUF", "ednspsz": "EDNSPSZ",
             "udp_max_queries": "UDP_MAX_QUERIES", "maxtimeout": "MAXTIMEOUTMS", "qcache_max_ttl": "QUERY_CACHE",
             "retry": "SERVER_FAILOVER"}
EFF_FIELDS = ["flags", "timeout", "tries", "ndots", "rotate", "udp_port", "tcp_port", "servers", "domains", "lookups",
              "sortlist", "sndbuf", "rcvbuf", "ednspsz", "udp_max_queries", "maxtimeout", "qcache_max_ttl", "retry",
              "local_dev", "local_ip4", "local_ip6"]
SET_FIELDS = ("timeout", "tries", "ndots")


def profile_text(name, seed, salt):
    lines = []
    for i, c in enumerate(PROFILES[name]):
        if c == "ns_bad":
            vs = NS_BAD_SAFE
        else:
            vs = B.VARIANTS[c]
        k = B.h32(seed, "c16", name, salt, i) % len(vs) if (c in B.JUNK) else 0
        lines.append(B.b(vs[k]))
    return B.lat(B.assemble(lines, B.h32(seed, "c16style", name, salt) % 3))


def opts_json(vals, ports, mask_names):
    v = VALS[vals]
    o = {"flags": sum(B.FLAGS[f] for f in v["flags"]), "timeout": v["timeout"], "tries": v["tries"], "ndots": v["ndots"],
         "servers": v["servers"], "domains": v["domains"], "lookups": v["lookups"], "sndbuf": v["sndbuf"],
         "rcvbuf": v["rcvbuf"], "ednspsz": v["ednspsz"], "udp_max_queries": v["udp_max_queries"],
         "maxtimeout": v["maxtimeout"], "qcache_max_ttl": v["qcache_max_ttl"], "retry_chance": v["retry"][0],
         "retry_delay": v["retry"][1], "udp_port": PORTS[ports][0], "tcp_port": PORTS[ports][1],
         "resolvconf_path": "$W/resolv.conf"}
    if v["sortlist"]:
        o["sortlist"] = " ".join(v["sortlist"])
    mask = B.OPT["RESOLVCONF"]
    for m in mask_names:
        mask |= B.OPT[m]
    return o, mask


def env_ops(profile):
    e = PROFILE_ENV.get(profile, {})
    return [{"op": "setenv", "name": k, "value": e.get(k)} for k in ("LOCALDOMAIN", "RES_OPTIONS")]


def build(sid, rec, seed):
    """TLC scenario -> harness scenario.  Returns (scenario, [index of the harness op that realises step k])."""
    steps = rec["steps"]
    first = steps[0]
    plain = first["op"] == "init_plain"
    path = "$W/etc/resolv.conf" if plain else "$W/resolv.conf"
    sc = {"id": sid, "etc": {}, "ops": [], "virt": 1}
    if rec["hostdom"] != "unset":
        sc["hostname"] = "host." + rec["hostdom"]
    ops = sc["ops"]
    idx = []
    port_opts, port_mask = {"resolvconf_path": "$W/resolv.conf"}, B.OPT["RESOLVCONF"]
    for k, st in enumerate(steps):
        op = st["op"]
        if op in ("init", "init_plain"):
            ops.extend(env_ops(st["sys"]))
            ops.append({"op": "write", "path": path, "content": profile_text(st["sys"], seed, (sid, k))})
            if plain:
                ops.append({"op": "init", "ch": 0, "opts": None, "mask": 0})
            else:
                o, m = opts_json(st["vals"], st["ports"], st["mask"])
                ops.append({"op": "init", "ch": 0, "opts": o, "mask": m})
                if "UDP_PORT" in st["mask"]:
                    port_opts["udp_port"] = o["udp_port"]
                    port_mask |= B.OPT["UDP_PORT"]
                if "TCP_PORT" in st["mask"]:
                    port_opts["tcp_port"] = o["tcp_port"]
                    port_mask |= B.OPT["TCP_PORT"]
        elif op == "set_servers":
            toks = st["list"]
            txt = ",".join(SRV_TEXT[t][B.h32(seed, "srv", sid, i) % len(SRV_TEXT[t])] for i, t in enumerate(toks))
            ops.append({"op": "set_servers_csv" if B.h32(seed, "api", sid) % 2 else "set_servers_ports_csv", "ch": 0,
                        "csv": txt})
        elif op == "set_sortlist":
            ops.append({"op": "set_sortlist", "ch": 0, "str": "13.0.0.0/8 130.155.160.0/255.255.240.0"})
        elif op == "set_local":
            ops.append({"op": "set_local_dev", "ch": 0, "dev": "lo"})
            ops.append({"op": "set_local_ip4", "ch": 0, "ip": 2130706433})
            ops.append({"op": "set_local_ip6", "ch": 0, "ip": "::1"})
            ops.append({"op": "obs", "ch": 0})
        elif op == "reinit":
            ops.extend(env_ops(st["sys"]))
            ops.append({"op": "write", "path": path, "content": profile_text(st["sys"], seed, (sid, k))})
            ops.append({"op": "reinit", "ch": 0})
        elif op == "dup":
            ops.append({"op": "dup", "src": 0, "dst": 1})
        elif op == "save_init":
            ops.append({"op": "save_init", "src": 0, "dst": 1})
        elif op == "csv_roundtrip":
            if plain:
                ops.append({"op": "csv_roundtrip", "src": 0, "dst": 1, "opts": None, "mask": 0})
            else:
                ops.append({"op": "csv_roundtrip", "src": 0, "dst": 1, "opts": port_opts, "mask": port_mask})
        else:
            raise vlib.MachineryError("unknown step %s" % op)
        idx.append(len(ops) - 1)
    return sc, idx


def model_of_obs(o):
    m = B.view_of_obs(o)
    m.update({"udp_port": o["udp_port"], "tcp_port": o["tcp_port"], "sndbuf": o["sndbuf"], "rcvbuf": o["rcvbuf"],
              "ednspsz": o["ednspsz"], "udp_max_queries": o["udp_max_queries"], "maxtimeout": o["maxtimeout"],
              "qcache_max_ttl": o["qcache_max_ttl"], "retry": [o["retry_chance"], o["retry_delay"]],
              "local_dev": o["local_dev"], "local_ip4": o["local_ip4"], "local_ip6": o["local_ip6"],
              "mask": frozenset(k for k, v in B.OPT.items() if o["optmask"] & v and k not in ("RESOLVCONF", "TIMEOUT"))})
    return m


def exp_value(exp, f):
    if f == "flags":
        return [frozenset(x) for x in exp["flags"]]
    if f == "servers":
        return B.exp_servers(exp["servers"])
    if f in ("domains", "sortlist", "retry"):
        return list(exp[f])
    if f == "mask":
        return frozenset(exp["mask"])
    return exp[f]


def field_ok(m, exp, f):
    ev = exp_value(exp, f)
    if f == "flags":
        return m["flags"] in ev
    if f in SET_FIELDS:
        return B.allowed_scalar(m[f], ev)
    return m[f] == ev


def digest(f, got, want):
    if f == "servers" and isinstance(want, list) and got != want and any(B.is_ll(x[0]) for x in want) and \
            not any(B.is_ll(x[0]) for x in got):
        return "servers:link-local entries dropped"
    if f == "flags":
        w = want[0] if isinstance(want, list) and want else frozenset(want)
        return "flags:+%s-%s" % (sorted(got - w), sorted(w - got))
    if f == "mask":
        return "mask:+%s-%s" % (sorted(got - want), sorted(want - got))
    return "%s:%s!=%s" % (f, B.short(got, 70), B.short(want, 70))


def no_ll(servers):
    return [s for s in servers if not B.is_ll(s[0])]


class Checker:
    private = True       # False: the sandbox's own /etc/nsswitch.conf is read, the lookup order cannot be predicted

    def __init__(self, ctx, stats):
        self.ctx, self.stats = ctx, stats
        self.seen = stats.setdefault("signatures", {})

    def emit(self, sig, txt, replay):
        if sig in self.seen:
            self.seen[sig] += 1
            return
        self.seen[sig] = 1
        if self.ctx.violation(sig, "%s: %s\n%s" % (sig, txt, replay[:2500]), replay_content=replay):
            self.stats["violations"] += 1

    def check(self, sid, rec, sc, idx, recs):
        st, leak, detail = B.status_of(recs)
        replay = json.dumps({"abstract": rec, "scenario": sc}, sort_keys=True)
        path = ">".join(s["op"] for s in rec["steps"])
        if st == "skipped":
            self.stats["skipped"] += 1
            return
        if st != "ok":
            self.emit("c16.%s %s" % (st, B.crash_sig(detail) if st == "crash" else "path=" + path),
                      "scenario %s (%s): %s\n%s" % (sid, path, st, detail), replay)
            return
        bad = False
        if leak:
            self.emit("c16.leak path=%s" % path, "scenario %s leaks\n%s" % (sid, detail), replay)
            bad = True
        tainted = False      # after the first deviating step only the relative (copy vs source) checks continue
        for k, step in enumerate(rec["steps"]):
            r = B.op_record(recs, idx[k])
            op = step["op"]
            exp = step["expect"]
            at = op if op not in ("init", "reinit", "init_plain") else "%s(%s)" % (op, step["sys"])
            if r is None:
                self.emit("c16.missing_step at=%s" % op, "no record for step %d of %s" % (k, sid), replay)
                return
            rc_ok = r.get("rc", "SUCCESS") == "SUCCESS" and r.get("rc2", "SUCCESS") in ("SUCCESS", "-")
            if not rc_ok or "obs" not in r:
                if not tainted:
                    self.emit("c16.call_failed at=%s rc=%s/%s" % (op, r.get("rc"), r.get("rc2")),
                              "step %d (%s) of %s failed" % (k, op, sid), replay)
                return
            m = model_of_obs(r["obs"])
            expmask = frozenset(exp["mask"])
            was_bad = bad
            bad = False
            if not tainted:
                bad = self.absolute(sid, rec, k, step, r, m, exp, expmask, op, at, replay)
            tainted = tainted or bad
            bad = self.relative(sid, rec, k, step, r, m, op, path, replay) or bad or was_bad
        if not bad:
            self.stats["accepted"] += 1

    def absolute(self, sid, rec, k, step, r, m, exp, expmask, op, at, replay):
        """Observation of one step against the specification's channel.  -> True if it deviates."""
        bad = False
        if True:
            # ---- (1) user settings win: every field whose bit the application set holds the application's value
            target = "copy" if op in ("dup", "save_init", "csv_roundtrip") else "chan"
            for f, bit in FIELD_BIT.items():
                if bit not in expmask or (f == "qcache_max_ttl" and op == "init_plain"):
                    continue
                if f == "qcache_max_ttl" and "QUERY_CACHE" not in (rec["steps"][0].get("mask") or []):
                    continue      # the default, not a user value (compared below as a model field)
                if f == "servers" and target == "copy" and m["servers"] == model_of_obs(r["src"])["servers"]:
                    continue      # same as the source: the source's own step / the relative check decide
                if not field_ok(m, exp, f):
                    self.emit("c16.userwins.%s at=%s %s" % (f, op if target == "chan" else op + "(copy)",
                                                           digest(f, m[f], exp_value(exp, f))),
                              "scenario %s step %d %s: the application set %s (mask bit %s) but the channel holds %s "
                              "(specification: %s)" % (sid, k, at, f, bit, B.short(m[f], 200), B.short(exp_value(exp, f), 200)),
                              replay)
                    bad = True
            for bit, want in (("ROTATE", True), ("NOROTATE", False)):
                if bit in expmask and not ("NOROTATE" in expmask and bit == "ROTATE") and m["rotate"] != want:
                    self.emit("c16.userwins.rotate at=%s bit=%s" % (op, bit), "scenario %s step %d %s: rotate=%s" %
                              (sid, k, at, m["rotate"]), replay)
                    bad = True
            if m["mask"] != expmask:
                self.emit("c16.mask at=%s %s" % (op, digest("mask", m["mask"], expmask)),
                          "scenario %s step %d %s: recorded option mask %s, specification %s" %
                          (sid, k, at, sorted(m["mask"]), sorted(expmask)), replay)
                bad = True
            # ---- (2) the remaining fields follow the specification (system configuration, defaults, setters)
            for f in EFF_FIELDS:
                if FIELD_BIT.get(f) in expmask and not (f == "qcache_max_ttl"):
                    continue
                if f == "rotate" and ({"ROTATE", "NOROTATE"} & expmask):
                    continue
                if f == "lookups" and not self.private:
                    continue
                if field_ok(m, exp, f):
                    continue
                ev = exp_value(exp, f)
                # (the tolerances for "use-vc ignored at init" and "link-local resolv.conf nameservers dropped at init"
                # were removed when c6cc13b / 2c68f4e / 331dbf2 repaired KF-C16-5 / KF-C16-3)
                self.emit("c16.model.%s at=%s %s" % (f, op, digest(f, m[f], ev)),
                          "scenario %s step %d %s: %s is %s, the specification allows %s" %
                          (sid, k, at, f, B.short(m[f], 200), B.short(ev, 200)), replay)
                bad = True
            # ---- (3) save symmetric: what ares_save_options reports for masked fields is the effective value
            sv = r["obs"].get("saved", {})
            if sv.get("rc") != "SUCCESS" and bad and not m["servers"]:
                pass          # no server left (consequence of the deviation reported above)
            elif sv.get("rc") != "SUCCESS":
                self.emit("c16.save.rc=%s at=%s" % (sv.get("rc"), op), "ares_save_options failed in %s step %d" % (sid, k), replay)
                bad = True
            else:
                for f, bit in FIELD_BIT.items():
                    if not (sv["optmask"] & B.OPT[bit]):
                        continue
                    if f == "retry":
                        got, eff = [sv.get("retry_chance"), sv.get("retry_delay")], m["retry"]
                    elif f == "flags":
                        got, eff = B.flags_to_set(sv.get("flags", 0)), m["flags"]
                    elif f == "servers":
                        got = sv.get("servers")
                        eff = [s[0] for s in m["servers"] if ":" not in s[0]]
                    elif f in ("sndbuf", "rcvbuf") and f not in sv:
                        continue
                    else:
                        got, eff = sv.get(f), m[f]
                    if got != eff:
                        self.emit("c16.save.field %s at=%s" % (f, op), "scenario %s step %d: ares_save_options reports %s=%s, "
                                  "the channel holds %s" % (sid, k, f, B.short(got, 120), B.short(eff, 120)), replay)
                        bad = True
        return bad

    def relative(self, sid, rec, k, step, r, m, op, path, replay):
        """Copy against its source.  -> True if it deviates."""
        bad = False
        if True:
            # ---- (4) copies
            if op in ("dup", "save_init", "csv_roundtrip"):
                src = model_of_obs(r["src"])
                if op == "csv_roundtrip":
                    if r.get("csv") != r.get("csv2"):
                        self.emit("c16.csv.fixpoint path=%s" % path, "scenario %s: %r fed back renders as %r" %
                                  (sid, r.get("csv"), r.get("csv2")), replay)
                        bad = True
                    if m["servers"] != src["servers"]:
                        self.emit("c16.csv.servers path=%s" % path, "scenario %s: servers %s -> text %r -> %s" %
                                  (sid, src["servers"], r.get("csv"), m["servers"]), replay)
                        bad = True
                elif step["demand"]:
                    df = [f for f in EFF_FIELDS if src[f] != m[f]]
                    how = "init=%s reinits=%d" % ("plain" if rec["steps"][0]["op"] == "init_plain" else "opts",
                                                  sum(1 for x in rec["steps"] if x["op"] == "reinit"))
                    for f in df:
                        self.emit("c16.%s %s %s" % ("dup" if op == "dup" else "saveinit", how,
                                                    digest(f, m[f], [src[f]] if f == "flags" else src[f])),
                                  "scenario %s (%s): the %s differs from its source in %s\nsource %s\ncopy   %s" %
                                  (sid, path, "duplicate" if op == "dup" else "channel re-created from saved options", df,
                                   {g: B.short(src[g], 100) for g in df}, {g: B.short(m[g], 100) for g in df}), replay)
                        bad = True
                elif op == "dup":
                    # not demanded as a whole (stale values on the source), but what the application set must be copied
                    df = [f for f in EFF_FIELDS if src[f] != m[f] and (FIELD_BIT.get(f) in src["mask"] or
                                                                       f in ("local_dev", "local_ip4", "local_ip6"))]
                    if df:
                        self.emit("c16.dup.user_fields path=%s %s" % (path, df), "scenario %s: user-set fields %s differ "
                                  "after ares_dup" % (sid, df), replay)
                        bad = True
        return bad


class _Probe:
    """stand-in ctx for the self-test: records signatures, never touches the verdict"""
    def __init__(self):
        self.sigs = []

    def violation(self, sig, text, replay_content=None):
        self.sigs.append(sig)
        return True


def selftest_corruption(ctx, meta, res, stats, name):
    """Binding self-test: flip one field of one recorded observation of an accepted scenario; the comparison against
    the specification must reject it."""
    for sid in sorted(meta, key=lambda s: B.h32(ctx.seed, "c16corrupt", s)):
        rec, sc, idx = meta[sid]
        p0 = _Probe()
        Checker(p0, {"violations": 0, "accepted": 0, "skipped": 0}).check(sid, rec, sc, idx, res.get(sid))
        if p0.sigs or not res.get(sid):
            continue
        recs = json.loads(json.dumps(res[sid]))
        r = B.op_record(recs, idx[0])
        field = ("ndots", "tries", "udp_max_queries", "rotate")[B.h32(ctx.seed, "c16corruptf", name) % 4]
        r["obs"][field] = (r["obs"][field] + 1) if field != "rotate" else (1 - r["obs"][field])
        p1 = _Probe()
        Checker(p1, {"violations": 0, "accepted": 0, "skipped": 0}).check(sid, rec, sc, idx, recs)
        if not p1.sigs:
            raise vlib.MachineryError("self-test: observation of %s with %s flipped was accepted" % (sid, field))
        stats.setdefault("corruption_selftest", {})[name] = {"scenario": sid, "field": field, "rejected_as": p1.sigs[0]}
        return


def run_stage(ctx, exe, name, cfg, stats, private, timeout=900):
    r = ctx.model_check("Config/ConfigOps.tla", cfg, deadlock=False, workers=8, timeout=timeout)
    if r.violation:
        raise vlib.MachineryError("ConfigOps violates its own invariant %s in %s:\n%s" % (r.violation, cfg, r.out[-3000:]))
    recs = []
    for line in r.out.splitlines():
        if line.startswith('"{') and 'c16' in line:
            recs.append(json.loads(json.loads(line)))
    if not recs:
        raise vlib.MachineryError("TLC printed no scenario for %s" % cfg)
    recs.sort(key=lambda x: json.dumps([(s.get("op"), s.get("sys"), s.get("mask"), s.get("vals"), s.get("ports"),
                                         s.get("list")) for s in x["steps"]] + [x["hostdom"]]))
    ctx.log("%s: TLC %d distinct states, %d scenarios, %.1fs" % (name, r.distinct, len(recs), r.wall))
    scns, meta = [], {}
    for n, rec in enumerate(recs):
        sid = "%s-%d" % (name, n)
        sc, idx = build(sid, rec, ctx.seed)
        if not private:
            if rec["steps"][0]["op"] == "init_plain" or "hostname" in sc:
                continue
            del sc["etc"]
        scns.append(sc)
        meta[sid] = (rec, sc, idx)
    t0 = time.time()
    res, summ = B.run_harness(exe, scns, os.path.join(ctx.out, name), nproc=8, timeout=1500)
    for s in summ:
        if s.get("batch_leak"):
            ctx.violation("c16.leak.unattributed(%s)" % name, "LeakSanitizer reported a leak in %s" % name)
    ctx.log("%s: %d scenarios executed in %.1fs" % (name, len(scns), time.time() - t0))
    Checker.private = private
    ck = Checker(ctx, stats)
    for sid, (rec, sc, idx) in meta.items():
        stats["executed"] += 1
        ck.check(sid, rec, sc, idx, res.get(sid))
    stats["families"][name] = {"cfg": cfg, "tlc_states": r.distinct, "scenarios": len(meta)}
    selftest_corruption(ctx, meta, res, stats, name)
    rec, sc, idx = meta[list(meta)[len(meta) // 2]]
    ctx.sample({"stage": name, "steps": [{k: v for k, v in s.items() if k != "expect"} for s in rec["steps"]],
                "hostdom": rec["hostdom"]})


def run(ctx):
    exe = ctx.build_harness("cfg")
    stats = {"executed": 0, "accepted": 0, "skipped": 0, "violations": 0, "families": {}}
    res, summ = B.run_harness(exe, [{"id": "probe", "etc": {}, "hostname": "probe.example", "ops": []}],
                              os.path.join(ctx.out, "probe"), nproc=1)
    private = bool(summ and summ[0].get("etc_private") and summ[0].get("uts_private"))
    if not private:
        ctx.assumptions.append("no private mount/UTS namespace: ares_init() scenarios (need a private /etc/resolv.conf) "
                               "and hostname scenarios are skipped; the sandbox's /etc/nsswitch.conf is read as it is")
    ctx.notes["private_etc"] = private
    sfx = "" if ctx.quick else "_t"
    for name in ("matrix", "servers", "reinit"):
        run_stage(ctx, exe, name, "ConfigOps_%s%s.cfg" % (name, sfx), stats, private, timeout=900 if ctx.quick else 1700)
    ctx.cov["evaluations"] = stats["executed"]
    ctx.cov["traces_validated_against_impl"] = stats["accepted"]
    ctx.cov["distinct_nontrivial"] = sum(f["scenarios"] for f in stats["families"].values())
    ctx.cov["rule"] = ("one scenario = one complete behaviour of ConfigOps.tla printed by TLC (init with mask/values/ports/"
                       "system profile/hostname, optional setter, reinit points, copy), distinct by its step list, every "
                       "one contains at least an initialisation and an observation or a copy; accepted = every observed "
                       "channel is allowed by the specification, masked fields hold the user values, copies equal sources")
    ctx.notes["c16"] = stats
    ctx.assumptions.append("system profiles are the seven resolv.conf/environment profiles of ConfigOps.tla (SysProfiles); "
                           "interface 'lo' exists; nsswitch.conf/netsvc.conf/svc.conf absent (private /etc)")
    ctx.log("C16 done: %s" % json.dumps({k: v for k, v in stats.items() if k != "families"}))
