"""C15, second part: sortlist strings, server CSV strings, hosts file, host-aliases file.

TLC (specs/Config/ConfigStrings.tla) enumerates every text of <= 3 (thorough: 4) tokens / lines per kind with
the outcome the specification allows; harness/cfg executes them; compared here.  Used by checks/c15.py.
"""
import json
import os
import sys

ROOT = os.path.dirname(os.path.dirname(os.path.abspath(__file__)))
sys.path.insert(0, os.path.join(ROOT, "harness", "cfg"))
import cfgbind as B  # noqa: E402
import vlib  # noqa: E402

SORT = {
    "s_cidr": ["10.0.0.0/8", "10.0.0.0/255.0.0.0", "10.0.0.0"],
    "s_dotted": ["130.155.160.0/255.255.240.0", "130.155.160.0/20"],
    "s_nat": ["130.155.0.0", "130.155.0.0/16"],
    "s_v6": ["2001:db8::/32", "2001:DB8::/32"],
    "s_empty": ["", " "],
    "s_badmask": ["10.0.0.0/33", "10.0.0.0/255.255.255.256", "2001:db8::/129", "10.0.0.0/", "10.0.0.0/-1",
                  "10.0.0.0/99999999999999999999", "10.0.0.0/8/8"],
    "s_badaddr": ["999.0.0.0/8", "bogus", "/8", ":::/64", "10.0.0.0x/8", "10.0.0.0.0/8"],
    "s_bin": [b"\x01\x02\xff", b"10.0.0.0/\xff", b"\x7f10.0.0.0/8"],
    "s_long": [b"1" * 10240, b"10.0.0.0/" + b"8" * 10240, b"a" * 100000],
}
CSV = {
    "c_v4": ["10.0.0.1", "[10.0.0.1]", "10.0.0.1:53", "dns://10.0.0.1"],
    "c_v4p": ["10.0.0.2:54", "[10.0.0.2]:54", "dns://10.0.0.2:54"],
    "c_v6": ["[2001:db8::1]", "[2001:db8::1]:53", "2001:db8::1", "dns://[2001:db8::1]"],
    "c_v6p": ["[2001:db8::2]:54", "dns://[2001:DB8::2]:54"],
    "c_v6bare": ["2001:db8::3", "2001:db8:0:0::3"],
    "c_uri": ["dns://10.0.0.3:55?tcpport=56", "dns://10.0.0.3:55/?tcpport=56"],
    "c_uri6": ["dns://[2001:db8::4]", "dns://[2001:db8::4]:53"],
    "c_ll": ["[fe80::1]:53%lo", "fe80::1%lo", "dns://[fe80::1%lo]", "dns://[fe80::1%lo]:53?tcpport=53"],
    "c_dup": ["10.0.0.1:53", "10.0.0.1"],
    "c_empty": ["", " "],
    "c_badport": ["1.2.3.4:", "1.2.3.4:Z", "[::1]:", "1.2.3.4:99999999"],
    "c_badaddr": ["foo", "999.1.1.1", "1.2.3.4.5", "::g", "dns://", "dns://foo.example"],
    "c_badbr": ["[::1", "[1.2.3.4", "[]", "]"],
    "c_tls": ["dns+tls://1.2.3.4", "dns+https://1.2.3.4", "http://1.2.3.4"],
    "c_badscope": ["[fe80::1]:53%nonexistent0", "dns://[fe80::1%nonexistent0]", "dns://[fe80::1%" + "a" * 20 + "]",
                   "dns://[fe80::1%" + "b" * 40 + "]:53?tcpport=54", "dns://[fe80::1%" + "c" * 250 + "]",
                   "[fe80::1]:53%" + "d" * 40, "fe80::1%" + "e" * 16, "dns://[fe80::1%" + "f1" * 8 + "]", "dns://[fe80::1%]"],
    "c_bin": [b"\x01\x02\xff", b"10.0.0.9\x07", b"dns://\xff\xfe"],
    "c_long": [b"1" * 10240, b"dns://" + b"a" * 10240, b"[" + b":" * 10240 + b"]"],
}
HOSTS = {
    "h_a": ["10.1.1.1 alpha", "10.1.1.1\talpha", "  10.1.1.1   alpha  ", "10.1.1.1 alpha # first"],
    "h_a2": ["10.1.1.3 alpha", "10.1.1.3 ALPHA"],
    "h_b": ["10.1.1.2 beta b2", "10.1.1.2\tbeta\tb2"],
    "h_6": ["2001:db8::5 alpha", "2001:DB8::5 alpha", "2001:db8:0:0:0:0:0:5 alpha"],
    "h_g": ["10.1.1.4 gamma # delta", "10.1.1.4 gamma #delta"],
    "h_badip": ["999.1.1.1 omega", "omega 10.1.1.9", "10.1.1.9.9 omega", ":::1 omega", "10.1.1.x omega"],
    "h_noname": ["10.1.1.9", "10.1.1.9   ", "10.1.1.9 # omega"],
    "h_bin": [b"\x00\x01\xff", b"\xff10.1.1.9 omega", b"10.1.1.9\x00 omega"],
    "h_long": [b"x" * 10240, b"10.1.1.9 " + b"o" * 10240, b"1" * 100000 + b" omega"],
    "h_comment": ["# 10.1.1.9 omega", "#", "   # 10.1.1.9 zeta"],
    "h_binname": [b"10.1.1.7 \xff\xfe zeta", b"10.1.1.7 " + b"z" * 300 + b" zeta"],
}
ALIASES = {
    "a_alpha": ["alpha a.example.com", "alpha\ta.example.com", "ALPHA a.example.com", "alpha a.example.com trailing"],
    "a_alpha2": ["alpha other.example.com"],
    "a_beta": ["beta b.example.com", "BETA   b.example.com"],
    "a_lone": ["alpha", "alpha   ", "beta"],
    "a_badfqdn": ["alpha bad_fqdn!.example.com", "beta #"],
    "a_bin": [b"\x00\x01\xff", b"alpha \xff\xfe", b"alph\x00a a.example.com"],
    "a_long": [b"alpha " + b"f" * 300, b"x" * 10240, b"alpha " + b"g" * 100000],
    "a_longname": [b"a" * 70 + b" a.example.com"],
    "a_comment": ["# alpha x.example.com", "gamma"],
}
TABLE = {"sortlist": SORT, "csv": CSV, "hosts": HOSTS, "aliases": ALIASES}
HOST_NAMES = ["alpha", "beta", "b2", "gamma", "delta", "omega", "zeta"]
ALIAS_NAMES = ["alpha", "beta", "gamma"]
RESOLV = "$W/resolv.conf"
BASE_OPTS = {"resolvconf_path": RESOLV}
BASE_MASK = B.OPT["RESOLVCONF"]


def texts_for(rec, seed):
    tab = TABLE[rec["what"]]
    out = []
    for i, t in enumerate(rec["toks"]):
        vs = tab[t]
        out.append(B.b(vs[B.h32(seed, rec["what"], tuple(rec["toks"]), i) % len(vs)]))
    return out


def build(sid, rec, seed):
    what = rec["what"]
    tx = texts_for(rec, seed)
    ops = [{"op": "write", "path": RESOLV, "content": "nameserver 10.9.9.9\n"}]
    if what == "sortlist":
        ops += [{"op": "init", "ch": 0, "opts": BASE_OPTS, "mask": BASE_MASK},
                {"op": "set_sortlist", "ch": 0, "str": "11.0.0.0/8"},
                {"op": "set_sortlist", "ch": 0, "str": B.lat(b" ".join(tx))}]
    elif what == "csv":
        ops += [{"op": "init", "ch": 0, "opts": BASE_OPTS, "mask": BASE_MASK},
                {"op": "set_servers_csv", "ch": 0, "csv": "10.8.8.8"},
                {"op": "set_servers_csv", "ch": 0, "csv": B.lat(b",".join(tx))}]
    elif what == "hosts":
        style = B.h32(seed, "hstyle", tuple(rec["toks"])) % 3
        ops += [{"op": "write", "path": "$W/hosts", "content": B.lat(B.assemble(tx, style))},
                {"op": "init", "ch": 0, "opts": dict(BASE_OPTS, hosts_path="$W/hosts", lookups="f"),
                 "mask": BASE_MASK | B.OPT["HOSTS_FILE"] | B.OPT["LOOKUPS"]}]
        for n in HOST_NAMES:
            ops.append({"op": "hostsfile", "ch": 0, "name": n, "family": 4})
            ops.append({"op": "hostsfile", "ch": 0, "name": n, "family": 6})
    else:
        style = B.h32(seed, "astyle", tuple(rec["toks"])) % 3
        ops += [{"op": "write", "path": "$W/aliases", "content": B.lat(B.assemble(tx, style))},
                {"op": "setenv", "name": "HOSTALIASES", "value": "$W/aliases"},
                {"op": "init", "ch": 0, "opts": BASE_OPTS, "mask": BASE_MASK}]
        for n in ALIAS_NAMES:
            ops.append({"op": "hostalias", "ch": 0, "name": n})
    return {"id": sid, "etc": {}, "ops": ops}, tx


def tsig(tx):
    out = []
    for t in tx:
        t = B.b(t)
        out.append((t[:20].decode("latin-1").encode("unicode_escape").decode() + "..(%d)" % len(t)) if len(t) > 40
                   else t.decode("latin-1").encode("unicode_escape").decode())
    return out


def check_one(rec, recs, tx):
    """-> list of (signature, text)"""
    what = rec["what"]
    exp = rec["expect"]
    st, leak, detail = B.status_of(recs)
    bad = sorted(set(t for t in rec["toks"] if t in {"sortlist": ("s_badmask", "s_badaddr", "s_bin", "s_long"),
                                                      "csv": ("c_badport", "c_badaddr", "c_badbr", "c_tls", "c_bin", "c_long", "c_badscope"),
                                                      "hosts": ("h_badip", "h_noname", "h_bin", "h_long", "h_comment", "h_binname"),
                                                      "aliases": ("a_lone", "a_badfqdn", "a_bin", "a_long", "a_longname", "a_comment")}[what]))
    out = []
    if st != "ok":
        if st == "crash":
            return [("c15s.%s.crash %s" % (what, B.crash_sig(detail)), "crash on %s text %s\n%s" % (what, tsig(tx), detail))]
        return [("c15s.%s.%s junk=%s" % (what, st, bad), "%s on %s text %s\n%s" % (st, what, tsig(tx), detail))]
    if leak:
        out.append(("c15s.%s.leak junk=%s" % (what, bad), "leak after %s text %s\n%s" % (what, tsig(tx), detail)))
    if what == "sortlist":
        r0, r = B.op_record(recs, 2), B.op_record(recs, 3)
        before, after, rc = r0["obs"]["sortlist"], r["obs"]["sortlist"], r["rc"]
        ents = list(exp["entries"])
        if rc != "SUCCESS":
            if not exp["has_bad"] and ents:
                out.append(("c15s.sortlist.valid_rejected toks=%s" % rec["toks"], "rc=%s for valid sortlist %s" % (rc, tsig(tx))))
            elif after != before:
                out.append(("c15s.sortlist.error_but_changed bad=%s" % bad, "rc=%s but sortlist %s -> %s for %s" % (rc, before, after, tsig(tx))))
        else:
            want = ents if ents else before
            if after != want:
                out.append(("c15s.sortlist.wrong_result bad=%s" % bad, "SUCCESS with sortlist %s, specification allows %s (or an error) for %s"
                            % (after, want, tsig(tx))))
            if ents and not (r["obs"]["optmask"] & B.OPT["SORTLIST"]):
                out.append(("c15s.sortlist.mask_not_recorded", "sortlist set but ARES_OPT_SORTLIST not recorded"))
    elif what == "csv":
        r0, r = B.op_record(recs, 2), B.op_record(recs, 3)
        v0, v = B.view_of_obs(r0["obs"])["servers"], B.view_of_obs(r["obs"])["servers"]
        rc = r["rc"]
        es = B.exp_servers(exp["servers"])
        es_noll = [s for s in es if not B.is_ll(s[0])]
        if rc != "SUCCESS":
            if not exp["has_bad"]:
                out.append(("c15s.csv.valid_rejected toks=%s" % rec["toks"], "rc=%s for valid server list %s" % (rc, tsig(tx))))
            elif v != v0:
                out.append(("c15s.csv.error_but_changed bad=%s" % bad, "rc=%s but servers %s -> %s for %s" % (rc, v0, v, tsig(tx))))
        else:
            if exp["only_empty"] or (not es):
                ok = v in ([], v0)
            else:
                ok = v == es
            if not ok:
                out.append(("c15s.csv.wrong_result bad=%s" % bad, "SUCCESS with servers %s, specification allows %s (or an error when a "
                            "token is malformed) for %s" % (v, es, tsig(tx))))
            for s in v:
                if not (1 <= s[1] <= 65535 and 1 <= s[2] <= 65535):
                    out.append(("c15s.csv.port_out_of_range", "server %s" % (s,)))
    elif what == "hosts":
        i = 3
        for n in HOST_NAMES:
            for fam, key in ((4, "v4"), (6, "v6")):
                r = B.op_record(recs, i)
                i += 1
                want = list(exp[n][key])
                got = r.get("addrs") or [] if r.get("rc") == "SUCCESS" else []
                if r.get("rc") not in ("SUCCESS", "ENOTFOUND"):
                    out.append(("c15s.hosts.rc=%s junk=%s" % (r.get("rc"), bad), "lookup %s/%s in hosts %s" % (n, key, tsig(tx))))
                elif got != want:
                    out.append(("c15s.hosts.wrong_answer name=%s junk=%s" % (n, bad), "lookup %s/%s gives %s, specification says %s; hosts file %s"
                                % (n, key, got, want, tsig(tx))))
    else:
        i = 4
        for n in ALIAS_NAMES:
            r = B.op_record(recs, i)
            i += 1
            want = exp[n]
            got = r.get("alias") if r.get("rc") == "SUCCESS" else "unset"
            if r.get("rc") not in ("SUCCESS", "ENOTFOUND") or got != want:
                out.append(("c15s.aliases.wrong_answer name=%s junk=%s" % (n, bad), "alias of %s is %s (rc %s), specification says %s; file %s"
                            % (n, got, r.get("rc"), want, tsig(tx))))
    return out


def run(ctx, exe, stats, private):
    cfg = "ConfigStrings_gen.cfg" if ctx.quick else "ConfigStrings_gen4.cfg"
    r = ctx.model_check("Config/ConfigStrings.tla", cfg, deadlock=False, workers=8, timeout=900)
    if r.violation:
        raise vlib.MachineryError("ConfigStrings violates its own invariant %s" % r.violation)
    recs = []
    for line in r.out.splitlines():
        if line.startswith('"{') and 'c15s' in line:
            recs.append(json.loads(json.loads(line)))
    recs.sort(key=lambda x: (x["what"], x["toks"]))
    if not recs:
        raise vlib.MachineryError("TLC printed no string scenario")
    scns, meta = [], {}
    for n, rec in enumerate(recs):
        sid = "str-%d" % n
        sc, tx = build(sid, rec, ctx.seed)
        if not private:
            del sc["etc"]
        scns.append(sc)
        meta[sid] = (rec, tx, sc)
    res, _ = B.run_harness(exe, scns, os.path.join(ctx.out, "strings"), nproc=8, timeout=900)
    seen = stats.setdefault("signatures", {})
    acc = 0
    per = {}
    for sid, (rec, tx, sc) in meta.items():
        stats["executed"] += 1
        per[rec["what"]] = per.get(rec["what"], 0) + 1
        probs = check_one(rec, res.get(sid), tx)
        if not probs:
            acc += 1
            stats["accepted"] += 1
        for sig, txt in probs:
            if sig in seen:
                seen[sig] += 1
                continue
            seen[sig] = 1
            replay = json.dumps({"abstract": rec, "scenario": sc}, sort_keys=True)
            if ctx.violation(sig, "%s: %s\n%s" % (sig, txt, replay[:2000]), replay_content=replay):
                stats["violations"] += 1
    stats["families"]["strings"] = {"cfg": cfg, "tlc_states": r.distinct, "scenarios": len(meta), "accepted": acc,
                                    "per_kind": per}
    ctx.log("strings: %d texts (%s), %d accepted" % (len(meta), per, acc))
    ctx.sample({"family": "strings", "what": recs[len(recs) // 2]["what"], "toks": recs[len(recs) // 2]["toks"]})
