"""C04 - decoded records say what the wire bytes say (RFC reference agreement).

TLA+ specification: specs/DnsWire/DnsWire.tla (reference decoder/encoder written
from the RFCs), DnsWireName.tla (names, presentation escapes), DnsWireGen.tla
(record families, layouts, mutations), DnsWireTrace.tla (trace validation).

 1. TLC checks the reference codec on itself (Decode(Encode(rec, layout)) = rec
    with verdict WF exactly inside the RFC rules; Decode total on every mutated
    message; Unescape(Pres(name)) = name).
 2. spec -> impl: TLC prints every generated / mutated message with the
    reference verdict and record (for parse flags 0 and all-RAW, thorough also
    BASE-only / EXT-only); cares_codec parses the same bytes with the real
    ares_dns_parse and dumps the record through the public getters;
    WF => must accept and be equal field by field; accepted and Lenient =>
    equal; Malformed => nothing demanded.
 3. impl -> spec: presentation-format names REPORTED by the implementation are
    un-escaped by the TLA+ reference (RFC 1035 5.1) and must give the wire
    labels back; names WRITTEN from presentation strings are decoded by the
    reference (DnsWireTrace.tla).
"""
import json
import os
import sys

ROOT = os.path.dirname(os.path.dirname(os.path.abspath(__file__)))
sys.path.insert(0, os.path.join(ROOT, "harness", "codec"))
import codeclib as cl  # noqa: E402
import vlib  # noqa: E402


def classify(diffs, exp, act):
    """partition a field mismatch between reference (exp) and implementation (act) into signatures"""
    sigs = []
    rest = list(diffs)
    # an uninterpreted RR with empty RDATA: type reported as 0 and no data pointer
    raw = [d for d in rest if (d[0].endswith(".keys.6553601") and d[2] == 0) or
           (d[0].endswith(".keys.6553602") and d[1] == "" and d[2] is None)]
    if raw and len([d for d in raw if d[0].endswith("6553601")]) <= len([d for d in raw if d[0].endswith("6553602")]):
        sigs.append("parse.rawrr_empty_rdata.type_reported_0_data_null")
        rest = [d for d in rest if d not in raw]
    rc = [d for d in rest if d[0] == "rcode" and d[2] == 2 and d[1] not in cl.RCODES_KNOWN]
    if rc:
        sigs.append("parse.rcode.unassigned_value_reported_as_servfail")
        rest = [d for d in rest if d not in rc]
    for d in [x for x in rest if x[0] == "ar.keys.4105"]:
        e, a = d[1], d[2]
        codes = [x[0] for x in e]
        if len(set(codes)) < len(codes):
            last, order = {}, []
            for c, val in e:
                if c not in last:
                    order.append(c)
                last[c] = val
            if a == [[c, last[c]] for c in order]:
                sigs.append("parse.opt.options_with_same_code_collapsed")
                rest = [x for x in rest if x is not d]
    if rest:
        sigs.append("parse.mismatch." + rest[0][0])
    return sigs


def replay(ctx, exe):
    """./check C04 --replay file: re-run one recorded vector against the current tree"""
    import json
    j = json.load(open(ctx.replay))
    reported = {}
    if j.get("op") == "build":
        res, _ = cl.run_harness(ctx, exe, "replay", [{"id": "r", "op": "build", "rec": j["rec"], "prefixes": []}])
        for vid, sig, text in cl.safety_findings(res):
            ctx.violation("c04." + sig, text)
        r = res.get("r", {})
        w = r.get("w", {})
        ctx.log("replay build: built=%s write st=%s reparse st=%s equal=%s" %
                (r.get("built"), w.get("st"), w.get("rp_st"), w.get("rp_eq")))
        if r.get("built") and w.get("st") == 0 and w["len"] <= 65535:
            ev = {"id": "r", "e": "wire", "nb": cl.unhx(w["hex"]), "fl": 0, "rec": cl.canon_to_ref(w["orig"]),
                  "names": "pres"}
            bad = cl.validate_trace(ctx, "replay", [ev])
            if bad:
                dn = cl.diff_canon(w["orig"], w["rp"]) if "rp" in w else []
                sig = "write.name.presentation_to_wire.%s" % bad["r"].split(":")[0]
                if dn and all(len(x[1]) // 2 > 511 and bytes.fromhex(x[1])[:511].startswith(bytes.fromhex(x[2]))
                              for x in dn if isinstance(x[1], str) and isinstance(x[2], str)):
                    sig = "write.name.presentation_longer_than_511_chars.silently_truncated"
                ctx.violation(sig, "replayed record: reference verdict %s" % bad["r"])
        return
    fl = j.get("flags", 0)
    fls = fl if isinstance(fl, list) else [fl]
    res, _ = cl.run_harness(ctx, exe, "replay", [{"id": "r", "op": "parse", "hex": j["hex"], "flags": fls, "wb": [],
                                                    "names": 0, "legacy": 0}])
    for vid, sig, text in cl.safety_findings(res):
        ctx.violation("c04." + sig, text)
    d = j.get("reference")
    r = res.get("r", {})
    if d and "p" in r:
        p = [x for x in r["p"] if x["fl"] == d["fl"]][0]
        v = {"id": j.get("id", "replay"), "nb": cl.unhx(j["hex"])}
        ctx.log("replay parse: reference %s, implementation status %d" % (d["k"], p["st"]))
        if p["st"] != 0 and d["k"] == "WF":
            _report(ctx, reported, "parse.rejects_wellformed.st%d.%s" % (p["st"], _first_tag(d["rec"])), v, d, p, "rejected")
        elif p["st"] == 0 and d["k"] != "Malformed":
            exp = cl.ref_to_canon(d["rec"])
            diffs = cl.diff_canon(exp, p["rec"])
            for sig in (classify(diffs, exp, p["rec"]) if diffs else []):
                _report(ctx, reported, sig, v, d, p, "fields differ: %s" % (diffs[:4],))


def run(ctx):
    exe = ctx.build_harness("codec")
    if ctx.replay:
        return replay(ctx, exe)
    quick = ctx.quick
    ctx.cov["rule"] = ("a vector is non-trivial if the reference verdict is WF or Lenient (the equality demand applies) "
                       "and the message has at least one RR or a compressed name; distinct by message bytes")

    # 1. the reference codec on itself
    consts = cl.gen_consts(ctx.tier, ctx.seed)
    consts["Emit"] = "FALSE"
    cl.model_check(ctx, "DnsWireGen.tla", "c04_codec_mc", consts,
                   ["RoundTrip", "Total", "PresRoundTrip", "WriterSound", "SizeLimit", "FlagsSound"], timeout=1200)
    # ... and on the large messages: offsets around 16384, and the message-size limit (65534 / 65535 / 65536 octets)
    cb = cl.gen_consts(ctx.tier, ctx.seed, fams=["big"], muts=[], flags=(0,), stride=1, combo=1)
    cb["Emit"] = "FALSE"
    cl.model_check(ctx, "DnsWireGen.tla", "c04_big_mc", cb, ["RoundTrip", "Total", "SizeLimit", "EdgeExact"], timeout=900)

    # 2. spec -> impl: every vector with the parse-flag values for which TLC printed the reference's reading
    # (all vectors: no flags / all RAW; unmutated vectors of the flag families: all 64 combinations)
    main = cl.main_vectors(ctx)
    vecs = main + cl.big_vectors(ctx)
    flags = sorted({d["fl"] for d in main[0]["dec"]})
    hv = [{"id": v["id"], "op": "parse", "hex": cl.hx(v["nb"]), "flags": sorted({d["fl"] for d in v["dec"]}), "wb": [],
           "names": 0, "legacy": 0} for v in vecs]
    res, _ = cl.run_harness(ctx, exe, "c04_parse", hv, timeout=1200)
    for vid, sig, text in cl.confirmed_safety(ctx, exe, hv, res):
        ctx.violation("c04." + sig, text, replay_content=_replay(vecs, vid))
    stats = {"WF": 0, "Lenient": 0, "Malformed": 0, "wf_accepted_equal": 0, "lenient_accepted_equal": 0,
             "lenient_rejected": 0, "malformed_accepted": 0, "malformed_rejected": 0}
    nontrivial = set()
    pres_events = []
    reported = {}
    reported_names = {}      # presentation string (hex) the parser reported -> first vector that showed it
    for v in vecs:
        r = res.get(v["id"])
        if r is None or r.get("crash") or r.get("leak") or "p" not in r:
            continue
        byfl = {p["fl"]: p for p in r["p"]}
        for d in v["dec"]:
            p = byfl[d["fl"]]
            ctx.cov["evaluations"] += 1
            acc = p["st"] == cl.ARES_SUCCESS
            if d["fl"] == 0:
                stats[d["k"]] += 1
            if d["k"] == "Malformed":
                stats["malformed_accepted" if acc else "malformed_rejected"] += d["fl"] == 0
                continue
            if not acc:
                if d["k"] == "WF":
                    tag = _first_tag(d["rec"])
                    sig = "parse.rejects_wellformed.st%d.%s" % (p["st"], tag)
                    _report(ctx, reported, sig, v, d, p, "reference: WF, implementation status %d" % p["st"])
                else:
                    stats["lenient_rejected"] += d["fl"] == 0
                continue
            exp = cl.ref_to_canon(d["rec"])
            diffs = cl.diff_canon(exp, p["rec"])
            # a name that differs only in the choice of escapes is judged by the reference's Unescape
            named = [x for x in diffs if x[0].endswith(".name") or _is_name_key(x[0])]
            if diffs and len(named) == len(diffs):
                for i, x in enumerate(named):
                    pres_events.append({"id": "%s|fl%d|%d" % (v["id"], d["fl"], i), "e": "preseq",
                                        "s": cl.unhx(x[2] or ""), "t": cl.unhx(x[1] or ""),
                                        "_v": v["id"], "_path": x[0], "_d": [x]})
                continue
            if diffs:
                for sig in classify(diffs, exp, p["rec"]):
                    _report(ctx, reported, sig, v, d, p, "fields differ: %s" % (diffs[:4],))
            else:
                stats["wf_accepted_equal" if d["k"] == "WF" else "lenient_accepted_equal"] += 1
                if d["fl"] == 0:
                    for nm in _reported_names(p["rec"]):
                        reported_names.setdefault(nm, v["id"])
                rec = d["rec"]
                if rec["an"] or rec["ns"] or rec["ar"]:
                    nontrivial.add(cl.hx(v["nb"]) + str(d["fl"]))
    ctx.cov["distinct_nontrivial"] = len(nontrivial)
    ctx.notes["verdicts_flags0"] = stats
    nall = sum(1 for v in vecs if len(v["dec"]) == len(cl.ALL_FLAGS))
    ctx.notes["parse_flag_values_compared"] = {"every_vector": flags, "all_64_combinations_on_unmutated_vectors": nall}
    ctx.notes["message_lengths_at_the_size_limit"] = sorted({len(v["nb"]) for v in vecs if len(v["nb"]) >= 65534})
    ctx.log("spec->impl: %d vectors x flags %s, %d of them x all 64 flag combinations; %s" %
            (len(vecs), flags, nall, stats))

    # 3. impl -> spec: names reported by the implementation, un-escaped by the reference
    events = []
    for v in vecs:
        if v["mut"]["k"] != "none" or v["fam"] not in ("names", "api", "multi"):
            continue
        r = res.get(v["id"])
        if not r or "p" not in r:
            continue
        p0 = [p for p in r["p"] if p["fl"] == 0][0]
        if p0["st"] != cl.ARES_SUCCESS:
            continue
        raw = v["raw"]
        for i, q in enumerate(p0["rec"]["qd"]):
            events.append({"id": "%s|qd%d" % (v["id"], i), "e": "pres", "s": cl.unhx(q["name"] or ""),
                           "labels": raw["qd"][i]["name"]})
        for sect in ("an", "ns", "ar"):
            for i, rr in enumerate(p0["rec"][sect]):
                if i < len(raw[sect]):
                    events.append({"id": "%s|%s%d" % (v["id"], sect, i), "e": "pres",
                                   "s": cl.unhx(rr["name"] or ""), "labels": raw[sect][i]["name"]})
    # names written from presentation strings (name-to-wire direction)
    bases = [v for v in cl.base_records(vecs) if v["fam"] == "names" or (v["fam"] == "api" and v["idx"] >= 2)]
    bv = [{"id": "b|" + v["id"], "op": "build", "rec": cl.ref_to_canon(v["rec"]), "prefixes": []} for v in bases]
    bres, _ = cl.run_harness(ctx, exe, "c04_build", bv, timeout=600)
    for vid, sig, text in cl.confirmed_safety(ctx, exe, bv, bres):
        ctx.violation("c04." + sig, text)
    for v in bases:
        r = bres.get("b|" + v["id"])
        if not r or not r.get("built") or r["w"]["st"] != cl.ARES_SUCCESS or r["w"]["len"] > 65535:
            continue
        events.append({"id": "b|" + v["id"], "e": "wire", "nb": cl.unhx(r["w"]["hex"]), "fl": 0,
                       "rec": cl.canon_to_ref(r["w"]["orig"]), "names": "pres"})
    # every name the parser reported (for a message the reference can read) goes back through the public setters
    # and ares_dns_write: the write must succeed and the reference must decode the same labels
    # (Unescape(reported string)).  Two RDATA positions without hostname validation: SRV target (written outside
    # the offset list) and NS name (written through the offset list; that path refuses presentation strings
    # longer than 255 characters, which is recorded but not demanded).
    rt = []
    names = sorted(reported_names)
    for i, nm in enumerate(names):
        base = {"id": 1, "qr": 0, "opcode": 0, "aa": 0, "tc": 0, "rd": 0, "ra": 0, "ad": 0, "cd": 0, "rcode": 0,
                "ns": [], "ar": []}
        rt.append({"id": "n|%d|srv" % i, "op": "build", "prefixes": [],
                   "rec": dict(base, qd=[{"name": "", "qtype": 33, "qclass": 1}],
                               an=[{"name": "", "type": 33, "class": 1, "ttl": 0,
                                    "keys": [[3302, 4, 1], [3303, 4, 2], [3304, 4, 3], [3305, 6, nm]]}])})
        rt.append({"id": "n|%d|ns" % i, "op": "build", "prefixes": [],
                   "rec": dict(base, qd=[{"name": "", "qtype": 2, "qclass": 1}],
                               an=[{"name": "", "type": 2, "class": 1, "ttl": 0, "keys": [[201, 6, nm]]}])})
    rres, _ = cl.run_harness(ctx, exe, "c04_name_roundtrip", rt, timeout=900)
    for vid, sig, text in cl.confirmed_safety(ctx, exe, rt, rres):
        ctx.violation("c04." + sig, text)
    rts = {"names": len(names), "written": 0, "listed_position_gt255_chars_refused": 0, "not_writable": 0}
    for b in rt:
        r = rres.get(b["id"])
        if not r or r.get("crash") or r.get("leak"):
            continue
        i, pos = int(b["id"].split("|")[1]), b["id"].split("|")[2]
        nm = names[i]
        st = r.get("st") if not r.get("built") else r["w"]["st"]
        if not r.get("built") or st != cl.ARES_SUCCESS:
            if pos == "ns" and len(nm) // 2 > 255:
                rts["listed_position_gt255_chars_refused"] += 1
                continue
            rts["not_writable"] += 1
            lab = _longest_label_hint(nm)
            _report_once(ctx, reported, "name.roundtrip.reported_name_not_writable.%s.st%s" % (pos, st),
                         "the parser reported the name %r (vector %s, %d characters%s) but writing it back through the "
                         "setters + ares_dns_write fails with status %s at %s" %
                         (bytes.fromhex(nm)[:120], reported_names[nm], len(nm) // 2, lab, st,
                          r.get("where") or "ares_dns_write"),
                         json.dumps({"signature": "name.roundtrip", "op": "build", "rec": b["rec"],
                                     "from_vector": reported_names[nm]}))
            continue
        rts["written"] += 1
        events.append({"id": b["id"], "e": "wire", "nb": cl.unhx(r["w"]["hex"]), "fl": 0,
                       "rec": cl.canon_to_ref(r["w"]["orig"]), "names": "pres"})
        if not r["w"].get("rp_eq"):
            _report_once(ctx, reported, "name.roundtrip.reparsed_name_differs.%s" % pos,
                         "name %r written and parsed back differs: %s" %
                         (bytes.fromhex(nm)[:120], cl.diff_canon(r["w"]["orig"], r["w"]["rp"])[:2] if "rp" in r["w"] else
                          r["w"].get("rp_st")),
                         json.dumps({"signature": "name.roundtrip", "op": "build", "rec": b["rec"]}))
    ctx.notes["name_roundtrip"] = rts
    ctx.log("name round trip: %s" % rts)
    clean = [{k: x for k, x in e.items() if not k.startswith("_")} for e in events + pres_events]
    bad = cl.validate_trace(ctx, "c04_names", clean, timeout=900)
    pe = {e["id"]: e for e in pres_events}
    for eid, verdict in sorted(bad.items()):
        if eid in pe:
            e = pe[eid]
            _report_once(ctx, reported, "parse.name.presentation_differs.%s" % e["_path"],
                         "vector %s: reported name string does not un-escape to the reference labels: %s" %
                         (e["_v"], e["_d"]), _replay(vecs, e["_v"]))
        elif eid.startswith("n|"):
            ctx.violation("name.roundtrip.written_labels_differ.%s" % eid.split("|")[2],
                          "name %r: the bytes written from the reported presentation string do not decode to "
                          "Unescape(string) (%s)" % (bytes.fromhex(names[int(eid.split("|")[1])])[:120], verdict),
                          replay_content=json.dumps({"signature": "name.roundtrip", "op": "build",
                                                     "rec": [b for b in rt if b["id"] == eid][0]["rec"]}))
        elif eid.startswith("b|"):
            w = bres[eid]["w"]
            sig = "write.name.presentation_to_wire.%s" % verdict.split(":")[0]
            dn = cl.diff_canon(w["orig"], w["rp"]) if "rp" in w else []
            if dn and all(_is_name_key(x[0]) or x[0].endswith(".name") for x in dn) and \
                    all(len(x[1]) // 2 > 511 and bytes.fromhex(x[1])[:511].startswith(bytes.fromhex(x[2])) for x in dn):
                sig = "write.name.presentation_longer_than_511_chars.silently_truncated"
            ctx.violation(sig, "record %s written from presentation names: reference verdict %s; %s" %
                          (eid, verdict, [(x[0], len(x[1]) // 2, len(x[2]) // 2) for x in dn]),
                          replay_content=__import__("json").dumps({"signature": sig, "id": eid, "op": "build",
                                                                   "rec": w["orig"], "written": w.get("hex")}))
        else:
            _report_once(ctx, reported, "parse.name.presentation_roundtrip",
                         "event %s: Unescape(reported string) differs from the wire labels (%s)" % (eid, verdict), None)
    ctx.cov["traces_validated_against_impl"] = len(clean) - len(bad)
    if events:
        cl.corrupted_trace_selftest(ctx, "c04", clean[0])
    for v in vecs[:2000:400]:
        ctx.sample({"id": v["id"], "bytes": cl.hx(v["nb"])[:120], "reference": v["dec"][0]["k"],
                    "why": v["dec"][0]["why"][:2]})
    ctx.assumptions += [
        "field value domains are small symbolic sets plus boundary values, not all 2^16/2^32 values",
        "supported subset (accept demand): one question, opcodes 0/1/2/4/5, classes IN/CH/HS/NONE(+ANY for questions, SIG), "
        "printable character-strings in HINFO/NAPTR/CAA/URI, non-empty SIG signature / TLSA data / CAA value",
        "parse flags compared: %s on every vector (RAW = RDATA uninterpreted) and all 64 combinations of the six "
        "ARES_DNS_PARSE_*_RAW bits on %d unmutated vectors (DnsWireGen!FlagsSound states what the bits mean); on mutated "
        "vectors the other combinations are only run for safety in C02" % (flags, nall),
        "the mapping reference field <-> c-ares key id (codeclib.BIND) is trusted plumbing",
    ]


NAME_KEYS = {k for tag, (_, fields) in cl.BIND.items() for (f, k, dt, kind) in fields if kind == "name"}


def _reported_names(rec):
    out = [q["name"] for q in rec["qd"]]
    for sect in ("an", "ns", "ar"):
        for rr in rec[sect]:
            out.append(rr["name"])
            out += [k[2] for k in rr["keys"] if k[0] in NAME_KEYS]
    return [n for n in out if n]


def _longest_label_hint(nm):
    """plumbing for the message text only: longest run between unescaped dots, in characters"""
    s = bytes.fromhex(nm)
    return ", longest dot-separated part %d characters" % max(len(x) for x in s.split(b".")) if s else ""


def _report_once(ctx, reported, sig, text, replay):
    n = reported.get(sig, 0)
    reported[sig] = n + 1
    ctx.notes.setdefault("mismatch_counts", {})[sig] = n + 1
    if n == 0:
        ctx.violation(sig, text, replay_content=replay)


def _is_name_key(path):
    m = path.rsplit(".", 1)
    if len(m) != 2 or not m[1].isdigit():
        return False
    key = int(m[1])
    for tag, (_, fields) in cl.BIND.items():
        for (f, k, dt, kind) in fields:
            if k == key and kind == "name":
                return True
    return False


def _first_tag(rec):
    for sect in ("an", "ns", "ar"):
        for rr in rec[sect]:
            return "%s.%s" % (sect, rr["rd"]["k"])
    return "header"


def _replay(vecs, vid):
    import json
    for v in vecs:
        if v["id"] == vid:
            return json.dumps({"id": vid, "hex": cl.hx(v["nb"]), "reference": v["dec"]})
    return None


def _report(ctx, reported, sig, v, d, p, text):
    """one violation per signature (first witness), count the rest"""
    import json
    n = reported.get(sig, 0)
    reported[sig] = n + 1
    ctx.notes.setdefault("mismatch_counts", {})[sig] = n + 1
    if n:
        return
    ctx.violation(sig, "vector %s flags=%d reference=%s: %s\nbytes=%s" %
                  (v["id"], d["fl"], d["k"], text, cl.hx(v["nb"])[:400]),
                  replay_content=json.dumps({"signature": sig, "id": v["id"], "hex": cl.hx(v["nb"]), "flags": d["fl"],
                                             "reference": d, "implementation": p}))
