"""C10 - socket protocol (Sockets facet)."""
import mutators
import simlib
import vlib

SK_KEEP = {"init", "call", "ret", "sk", "ann", "hint", "crash", "end"}
FACETS = [("SocketsTrace.tla", "SocketsTrace.cfg", SK_KEEP, None)]


def run(ctx):
    r = ctx.model_check("Resolver/Sockets.tla", "Sockets_mc.cfg", workers=8, timeout=600)
    if r.violation:
        raise vlib.MachineryError("Sockets.tla violates its own invariant %s" % r.violation)
    many = {"module": "GenMany.tla", "cfg": "GenMany.cfg", "name": "many"}
    if ctx.quick:
        gens = [{"module": "Gen_C10.tla", "cfg": "Gen_C10_quick.cfg", "name": "bfs"}, many]
    else:
        gens = [{"module": "Gen_C10.tla", "cfg": "Gen_C10_thorough.cfg", "name": "bfs"},
                {"module": "Gen_C10.tla", "cfg": "Gen_C10_sim.cfg", "name": "sim", "simulate": 1500, "depth": 9}, many]
    simlib.engine_check(ctx, gens, FACETS, selftests=mutators.SOCKETS)
    ctx.assumptions += ["sockets are virtual (ares_set_socket_functions_ex); descriptor numbers are never reused by the harness",
                        "ares_getsock is checked up to its 16-socket limit"]
