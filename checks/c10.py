"""C10 - socket protocol (Sockets facet)."""
import mutators
import simlib
import vlib

SK_KEEP = {"init", "call", "ret", "sk", "ann", "hint", "crash", "end"}
FACETS = [("SocketsTrace.tla", "SocketsTrace.cfg", SK_KEEP, None)]


def run(ctx):
    r = ctx.model_check("Resolver/Sockets.tla", "Sockets_mc.cfg", workers=8, timeout=600)
    if r.violation:
        raise vlib.MachineryError("Sockets.tla violates its own invariant %s" % r.violation)
    many = {"module": "GenMany.tla", "cfg": "GenMany.cfg", "name": "many"}
    # short writes / would-block scripts on TCP (the histories of the Stream facet), judged here for write interest
    tcpw = {"module": "Gen_C20.tla", "cfg": "Gen_C20_tcp_quick.cfg" if ctx.quick else "Gen_C20_tcp_thorough.cfg", "name": "tcpwrites"}
    tcpfail = {"module": "GenTcpFail.tla", "cfg": "GenTcpFail.cfg", "name": "tcpfail"}   # write failures on TCP connections
    # failures while a new socket is configured (bind to the configured source address, options, local address)
    cfgf = {"module": "Gen_C10.tla", "cfg": "Gen_C10_cfgfault.cfg", "name": "cfgfault"}
    # UDP transmissions that would block (datagram stays queued: write interest needed)
    udpw = {"module": "Gen_C20.tla", "cfg": "Gen_C20_udp.cfg", "name": "udpwrites"}
    batch = {"module": "GenBatch.tla", "cfg": "GenBatch.cfg", "name": "batch"}
    if ctx.quick:
        gens = [{"module": "Gen_C10.tla", "cfg": "Gen_C10_quick.cfg", "name": "bfs"}, many, tcpw, batch, tcpfail, cfgf, udpw]
    else:
        gens = [{"module": "Gen_C10.tla", "cfg": "Gen_C10_thorough.cfg", "name": "bfs"},
                {"module": "Gen_C10.tla", "cfg": "Gen_C10_sim.cfg", "name": "sim", "simulate": 1500, "depth": 9}, many, tcpw, batch, tcpfail, cfgf, udpw]
    simlib.engine_check(ctx, gens, FACETS, selftests=mutators.SOCKETS)
    ctx.assumptions += ["sockets are virtual (ares_set_socket_functions_ex); descriptor numbers are never reused by the harness",
                        "ares_getsock is checked up to its 16-socket limit"]
