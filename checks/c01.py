"""C01 - every request completes exactly once (Lifecycle facet)."""
import mutators
import simlib
import vlib

LC_KEEP = {"call", "ret", "cbb", "cbe", "rejected", "crash", "end"}
FACETS = [("LifecycleTrace.tla", "LifecycleTrace.cfg", LC_KEEP, None)]


def run(ctx):
    # 1. the contract itself: invariants of Lifecycle.tla, exhaustive for 3 tokens / nesting 5
    r = ctx.model_check("Resolver/Lifecycle.tla", "Lifecycle_mc.cfg", workers=8, timeout=600)
    if r.violation:
        raise vlib.MachineryError("Lifecycle.tla violates its own invariant %s" % r.violation)
    # 2. all environment histories up to the bound, replayed against the real code, traces validated
    # several datagrams per processing call, callbacks starting requests whose transmission fails
    tcpfail = {"module": "GenTcpFail.tla", "cfg": "GenTcpFail.cfg", "name": "tcpfail"}   # write failures on TCP connections
    batch = {"module": "GenBatch.tla", "cfg": "GenBatch.cfg", "name": "batch"}
    if ctx.quick:
        gens = [{"module": "Gen_C01.tla", "cfg": "Gen_C01_quick.cfg", "name": "bfs"},
                {"module": "Gen_C01.tla", "cfg": "Gen_C01_deep.cfg", "name": "deep"}, batch, tcpfail]
    else:
        gens = [{"module": "Gen_C01.tla", "cfg": "Gen_C01_thorough.cfg", "name": "bfs"},
                {"module": "Gen_C01.tla", "cfg": "Gen_C01_deep.cfg", "name": "deep"}, batch, tcpfail,
                {"module": "Gen_C01.tla", "cfg": "Gen_C01_sim.cfg", "name": "sim", "simulate": 1500, "depth": 9}]
    simlib.engine_check(ctx, gens, FACETS, selftests=mutators.LIFECYCLE)
    ctx.assumptions += ["nested calls from callbacks are restricted to what C01 names (new requests, ares_cancel); no call is made "
                        "from a destruction callback (documented as illegal)",
                        "memory clauses are observed by ASan/UBSan/LSan on the generated executions only"]
