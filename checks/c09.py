"""C09 - decided on the Retry facet (Retry.tla: retry budget/timing C06, server selection C09, timers C07)."""
import mutators
import simlib
import vlib

RT_KEEP = {"init", "call", "ret", "adv", "sk", "env", "srv", "cbb", "hint", "crash"}
FACETS = [("RetryTrace.tla", "RetryTrace.cfg", RT_KEEP, None)]
LABELS = ("c09.",)


def run(ctx):
    # RetryModel3*: the application replaces the server list while the query is outstanding (sequential destruction)
    for cfgname in ("RetryModel.cfg", "RetryModel2.cfg", "RetryModel3q.cfg" if ctx.quick else "RetryModel3.cfg"):
        r = ctx.model_check("Resolver/RetryModel.tla", cfgname, workers=8, timeout=1500)
        if r.violation:
            raise vlib.MachineryError("RetryModel.tla violates %s" % r.violation)
    # several datagrams read by one processing call
    batch = {"module": "GenBatch.tla", "cfg": "GenBatch.cfg", "name": "batch"}
    tcpfail = {"module": "GenTcpFail.tla", "cfg": "GenTcpFail.cfg", "name": "tcpfail"}   # write failures on TCP connections
    if ctx.quick:
        gens = [{"module": "Gen_C09.tla", "cfg": "Gen_C09_quick.cfg", "name": "bfs"}, batch, tcpfail]
    else:
        gens = [{"module": "Gen_C09.tla", "cfg": "Gen_C09_thorough.cfg", "name": "bfs"},
                {"module": "Gen_C09.tla", "cfg": "Gen_C09_sim.cfg", "name": "sim", "simulate": 2000, "depth": 14}, batch, tcpfail]
    simlib.engine_check(ctx, gens, FACETS, labels=LABELS, selftests=mutators.RETRY)
    extra(ctx)


def extra(ctx):
    pass
