"""C14 - any single allocation failure is survived cleanly.

Scenario family from GenOom.tla (TLC); for every scenario the number N of library allocations of the
failure-free run is measured, then the scenario is replayed N times failing exactly the n-th allocation
(every n = 1..N in both tiers).  Every run is
validated by TLC against the envelope OomTrace.tla (life-cycle contract + no leak + usable afterwards) and
against Sockets.tla (descriptor hygiene)."""
import json
import os

import simlib
import vlib

LC_KEEP = {"call", "ret", "cbb", "cbe", "rejected", "crash", "end", "oom", "initfail"}
SK_KEEP = {"init", "call", "ret", "sk", "ann", "hint", "crash", "end"}
FACETS = [("OomTrace.tla", "OomTrace.cfg", LC_KEEP, None),
          ("SocketsTrace.tla", "SocketsTrace.cfg", SK_KEEP, None)]


def run(ctx):
    exe = ctx.build_harness("sim")
    ctx.level = "fault_enumeration"
    ctx.sim_env = {"VERIF_LSAN_EACH": "1"}   # LeakSanitizer after every run: a leak is reported with its allocation site
    base = os.path.join(ctx.out, "scen.ndjson")
    n = simlib.gen_histories(ctx, "GenOom.tla", "GenOom.cfg", base, workers=1, prefix="sc")
    ctx.log("%d scenarios" % n)
    # failure-free runs: validate and measure allocation counts
    tr = os.path.join(ctx.out, "scen.trace.ndjson")
    simlib.run_sim(ctx, exe, base, tr, jobs=8)
    counts = {}
    cur = None
    with open(tr) as f:
        for line in f:
            if line.startswith('{"e":"reset"'):
                cur = json.loads(line)["id"]
            elif line.startswith('{"e":"end"'):
                counts[cur] = json.loads(line)["allocs"]
    scen = simlib.load_histories(base)
    if set(counts) != set(scen):
        raise vlib.MachineryError("could not measure allocation counts for all scenarios: %s" % sorted(set(scen) - set(counts)))
    hist = os.path.join(ctx.out, "oom.ndjson")
    total = 0
    per = {}
    with open(hist, "w") as g:
        for hid, line in sorted(scen.items()):
            j = json.loads(line)
            N = counts[hid]
            idx = list(range(1, N + 1))      # every allocation index, in both tiers (about 8-9 thousand runs, < 1 min)
            per[j["name"]] = {"allocations": N, "indices_failed": len(idx)}
            for k in idx:
                jj = dict(j)
                jj["cfg"] = dict(j["cfg"], failalloc=k)
                jj["id"] = "%s.n%d" % (j["name"], k)
                g.write(json.dumps(jj, separators=(",", ":")) + "\n")
                total += 1
    ctx.notes["scenarios"] = per
    ctx.log("%d fault runs over %d scenarios" % (total, n))
    simlib.campaign(ctx, exe, "free", base, FACETS, jobs=8, labels=("c14.", "c10."))
    simlib.campaign(ctx, exe, "oom", hist, FACETS, jobs=12, labels=("c14.", "c10."))
    ctx.cov["distinct_nontrivial"] = ctx.cov["evaluations"] - n
    ctx.cov["rule"] = ("one run per (scenario, allocation index n) with exactly the n-th library allocation failing; scenarios from "
                       "GenOom.tla; distinct by (scenario, n); non-trivial = a fault was injected (the %d failure-free runs are "
                       "not counted); every index is failed" % n)
    ctx.cov["exhaustive"] = True
    with open(hist) as f:
        for i, line in enumerate(f):
            if i % max(1, total // 4) == 0:
                ctx.sample(json.loads(line), limit=6)
    ctx.assumptions += ["allocations made by the harness itself while decoding/building packets with the library's codec are not "
                        "counted or failed", "ledger = counting allocator installed with ares_library_init_mem; ASan/UBSan observe memory errors"]
    # the legacy reply parsers (ares_parse_*_reply) under the same quantifier: specs/Legacy, harness/legacy
    import legacy_oom
    legacy_oom.run_legacy_oom(ctx)
