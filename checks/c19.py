"""C19 - internal containers behave as their abstract data types.

Specifications: specs/Containers/{Array,SList,HTable,LList,Buf}.tla (+ *Gen.tla, *Trace.tla).
Harness:        harness/dsa (verif_dsa replay|random), ASan+UBSan build of the current tree.

Pipeline (per container, the five pipelines run side by side):
  1. TLC model-checks the ADT laws of X.tla (X_mc.cfg, exhaustive, small constants);
  2. TLC (XGen.tla) enumerates EVERY operation sequence of a given depth over the API (or a stated
     sub-alphabet) and prints them as JSON scripts;
  3. the harness executes the scripts against the real containers and records, per call, the real
     results and the observable content (ndjson);  the seeded random driver adds long histories
     (many keys: hash tables grow/rehash, the array compacts, the buffer reclaims/reallocates);
  4. TLC (XTrace.tla) validates every recorded event against the outcomes X.tla allows;
     an unexplained event is printed ({"fail":line,...}), mapped to its history, re-run alone and
     re-validated, and only then reported through ctx.violation(signature, ..., replay=script);
  5. sanitizer reports / crashes / timeouts of a history (harness .crashes file) are violations too.
The harness has no reference model: every verdict is TLC's.
"""
import concurrent.futures as cf
import hashlib
import json
import os
import re
import threading
import time

import vlib

SPECDIR = os.path.join(vlib.ROOT, "specs", "Containers")
MOD = {"array": "Array", "slist": "SList", "htable": "HTable", "llist": "LList", "buf": "Buf"}
CONTAINERS = ["array", "slist", "htable", "llist", "buf"]
HT_KINDS = ["gen", "strvp", "szvp", "asvp", "vpvp", "vpstr", "dict"]
CHUNK = 200000          # events per TLC validation run
_lock = threading.Lock()
_uniq = [0]

ALL_OPS = {
    "array": ["insert_at", "insertdata_at", "insert_first", "insert_last", "insertdata_first", "insertdata_last",
              "remove_at", "claim_at", "remove_first", "remove_last", "sort", "set_size", "at", "first", "last"],
    "slist": ["insert", "find", "claim", "destroy_node", "reinsert", "next", "prev", "first", "last"],
    "htable": ["insert", "get", "get_direct", "remove", "claim", "num_keys", "keys"],
    "llist": ["insert_first", "insert_last", "insert_before", "insert_after", "claim", "destroy_node", "replace",
              "mv_first", "mv_last", "clear", "idx"],
    "buf": ["append", "append_direct", "append_be16", "fetch_be16", "fetch_bytes", "fetch_str_dup", "consume", "tag",
            "tag_rollback", "tag_clear", "tag_fetch_bytes", "tag_fetch_strdup", "consume_whitespace",
            "consume_nonwhitespace", "consume_line", "consume_until_charset", "consume_charset", "consume_until_seq",
            "split", "replace", "set_position", "parse_dns_binstr"],
}
CORE_OPS = {
    "array": ["insert_at", "insertdata_first", "insertdata_last", "remove_at", "remove_first", "claim_at"],
    "slist": ["insert", "find", "claim", "destroy_node", "reinsert"],
    "htable": ["insert", "remove", "claim"],
    "llist": ["insert_first", "insert_last", "claim", "destroy_node", "mv_first", "mv_last"],
    "buf": ["append", "fetch_bytes", "consume", "tag", "tag_rollback", "tag_clear", "tag_fetch_bytes",
            "consume_until_charset", "split"],
}
# calls that the random driver must exercise at least once (vacuity guard)
RANDOM_MUST = {
    "array": ["insert_at", "insertdata_at", "insert_first", "insert_last", "insertdata_first", "insertdata_last",
              "remove_at", "remove_first", "remove_last", "claim_at", "sort", "set_size"],
    "slist": ["insert", "find", "claim", "destroy_node", "reinsert"],
    "htable": ["insert", "get", "get_direct", "remove", "claim", "keys"],
    "llist": ["insert_first", "insert_last", "insert_before", "insert_after", "claim", "destroy_node", "replace",
              "mv_first", "mv_last", "clear"],
    "buf": ["append", "append_str", "append_be16", "append_be32", "append_direct", "fetch_bytes", "fetch_be16",
            "fetch_be32", "consume", "tag", "tag_rollback", "tag_clear", "tag_fetch_bytes", "split", "replace",
            "consume_until_charset", "parse_dns_binstr"],
}


def families(c, quick):
    """(label, depth, size constant, alphabet, exhaustive-over) per container and tier."""
    A, K = ALL_OPS[c], CORE_OPS[c]
    if c == "array":
        return [("all-calls", 3, 3, A), ("core-calls", 5, 3, K)] if quick else \
               [("all-calls", 4, 3, A), ("core-calls", 6, 3, K)]
    if c == "slist":
        return [("all-calls", 4, 4, A), ("core-calls", 5, 4, K)] if quick else \
               [("all-calls", 5, 4, A)]
    if c == "htable":
        return [("all-calls", 3, 3, A), ("ins-get-rem-claim", 4, 3, ["insert", "get", "remove", "claim"])] if quick else \
               [("all-calls", 4, 3, A), ("core-calls", 5, 3, K)]
    if c == "llist":
        return [("all-calls", 4, 4, A)] if quick else [("all-calls", 4, 4, A), ("core-calls", 5, 4, K)]
    if c == "buf":
        return [("all-calls", 3, 8, A)] if quick else [("all-calls", 3, 8, A), ("core-calls", 4, 8, K)]
    return []


class Slots:
    """at most `cap` TLC worker threads at any time (the machine is shared)."""

    def __init__(self, cap):
        self.cap, self.used, self.cv = cap, 0, threading.Condition()

    def acquire(self, n):
        with self.cv:
            while self.used + n > self.cap:
                self.cv.wait()
            self.used += n

    def release(self, n):
        with self.cv:
            self.used -= n
            self.cv.notify_all()


SLOTS = Slots(8)


def uniq():
    with _lock:
        _uniq[0] += 1
        return _uniq[0]


def tlc(ctx, module, cfg, env=None, workers=1, timeout=900, heap="3g"):
    """TLC run in specs/Containers with its own meta directory; raises MachineryError on tool errors."""
    metaroot = os.path.join(ctx.out, "tlc", "m%d" % uniq())
    SLOTS.acquire(workers)
    try:
        r = vlib.tlc(os.path.join(SPECDIR, module + ".tla"), cfg, workers=workers, timeout=timeout, env=env,
                     deadlock=True, metaroot=metaroot, extra=["-noGenerateSpecTE"], heap=heap, jvm=["-Xss128m"])
    finally:
        SLOTS.release(workers)
    if r.rc == 124:
        raise vlib.MachineryError("TLC timeout on %s %s" % (module, cfg))
    if r.error or "Parsing or semantic analysis failed" in r.out:
        raise vlib.MachineryError("TLC failed on %s %s:\n%s" % (module, cfg, (r.error or r.out)[-4000:]))
    return r


# ----------------------------------------------------------------------------------------------
# generation
def gen_cfg(ctx, c, depth, size, ops):
    src = open(os.path.join(SPECDIR, MOD[c] + "_gen.cfg")).read()
    src = re.sub(r"Depth = \d+", "Depth = %d" % depth, src)
    key = "NKeys" if c == "htable" else ("MaxData" if c == "buf" else "MaxLen")
    src = re.sub(r"%s = \d+" % key, "%s = %d" % (key, size), src)
    src = re.sub(r"(?m)^  Ops = .*$", "  Ops = {%s}" % ", ".join('"%s"' % o for o in ops), src)
    path = os.path.join(ctx.out, "%s_gen_%d.cfg" % (MOD[c], uniq()))
    with open(path, "w") as f:
        f.write(src)
    return path


def generate(ctx, c, depth, size, ops):
    r = tlc(ctx, MOD[c] + "Gen", gen_cfg(ctx, c, depth, size, ops), workers=4, timeout=1200, heap="6g")
    if r.violation:
        raise vlib.MachineryError("generator %s violated %s" % (c, r.violation))
    out = []
    for line in r.out.splitlines():
        if line.startswith('"{'):
            out.append(json.loads(json.loads(line))["ops"])
    if not out:
        raise vlib.MachineryError("generator %s produced nothing:\n%s" % (c, r.out[-2000:]))
    return out, r


def expand(c, opslists, family, quick):
    """attach the create call; hash-table scripts are kind-agnostic and replayed per wrapper kind."""
    res = []
    for i, ops in enumerate(opslists):
        if c == "array":
            res.append({"c": c, "create": [[4, 8, 24][i % 3]], "ops": ops})
        elif c == "slist":
            res.append({"c": c, "create": [i % 11], "ops": ops})
        elif c == "htable":
            # [kind, key ids, prefill]: every script on an empty table; the string-keyed / generic kinds also on a
            # table pre-filled with 26 entries (64 buckets: the spellings of a case-insensitive key only part
            # ways in the hash from bit 5 on, i.e. from 64 buckets on)
            # the word-keyed kinds (size_t, pointers) also with the wide key embedding (same low 32 bits, arbitrary
            # high words; see harness/dsa/htable.cc) on a pre-filled table, where bucket collisions are certain
            if family == "all-calls":
                combos = [(k, 0) for k in HT_KINDS] + ([("strvp", 26), ("dict", 26)] if quick else [("strvp", 26)])
                combos += [("szvp", 26, 1), ("vpvp", 26, 1), ("vpstr", 26, 1)]
            elif quick:
                combos = [("gen", 0), ("strvp", 26)]
            else:
                combos = [("gen", 26), ("strvp", 26), ("dict", 26)]
            for cb in combos:
                res.append({"c": c, "create": [cb[0], 3, cb[1]] + list(cb[2:]), "ops": ops})
        elif c == "llist":
            res.append({"c": c, "create": [], "ops": ops})
        elif c == "buf":
            res.append({"c": c, "create": ops[0], "ops": ops[1:]})
    return res


def write_scripts(path, scripts):
    with open(path, "w") as f:
        for h, s in enumerate(scripts):
            cr = list(s["create"])
            if s["c"] == "htable" and len(cr) == 2:
                cr.append(0)        # [kind, key ids, prefill]
            o = {"h": h, "c": s["c"], "create": cr, "ops": s["ops"]}
            f.write(json.dumps(o, separators=(",", ":")) + "\n")


# ----------------------------------------------------------------------------------------------
# harness
def harness(ctx, exe, args, env=None, timeout=1500):
    # reports are left unsymbolized in the bulk runs (the external symbolizer costs ~0.1 s per report);
    # frames() below resolves the distinct code addresses in one batch
    e = {"ASAN_OPTIONS": "detect_leaks=1:exitcode=77:abort_on_error=0:allocator_may_return_null=1:symbolize=0",
         "UBSAN_OPTIONS": "print_stacktrace=0:halt_on_error=1"}
    if env:
        e.update(env)
    rc, out = vlib.sh([exe] + [str(a) for a in args], timeout=timeout, env=e)
    if rc != 0 or "histories=" not in out:
        raise vlib.MachineryError("harness failed (%s): %s\n%s" % (rc, args, out[-3000:]))
    m = re.search(r"skipped_after_timeouts=(\d+)", out)
    if m and int(m.group(1)) > 0:
        ctx.log("harness: %s histories not run after repeated timeouts (%s)" % (m.group(1), args[:3]))
        with _lock:
            ctx.notes.setdefault("skipped_after_timeouts", []).append({"args": [str(a) for a in args[:3]], "n": int(m.group(1))})
    return out


_sym_cache = {}
_func_cache = {}


def enclosing_function(path, line):
    """name of the C function that contains path:line (for the label of an UBSan report)."""
    key = (path, line)
    if key not in _func_cache:
        name = os.path.basename(path) + ":" + str(line)
        try:
            src = open(path, errors="replace").read().splitlines()
            for k in range(min(line, len(src)) - 1, -1, -1):
                m = re.match(r"^[A-Za-z_][\w\s\*]*?\b(\w+)\s*\(", src[k])
                if m and not src[k].startswith(("if", "for", "while", "switch", "return", "else")):
                    name = m.group(1)
                    break
        except OSError:
            pass
        _func_cache[key] = name
    return _func_cache[key]


def resolve_frames(exe, crashes):
    """fill cr["frames"] (innermost c-ares functions) from the unsymbolized sanitizer report."""
    rx = re.compile(r"#\d+ 0x[0-9a-f]+\s+\((\S+?)\+0x([0-9a-f]+)\)")
    need = set()
    for cr in crashes:
        if cr.get("frames"):
            continue
        for mod, off in rx.findall(cr.get("report", ""))[:40]:
            if os.path.basename(mod) == os.path.basename(exe) and off not in _sym_cache:
                need.add(off)
    need = sorted(need)
    for i in range(0, len(need), 400):
        part = need[i:i + 400]
        rc, out = vlib.sh(["addr2line", "-f", "-e", exe] + ["0x" + o for o in part], timeout=300)
        lines = out.splitlines()
        for k, off in enumerate(part):
            _sym_cache[off] = lines[2 * k].strip() if 2 * k < len(lines) else "?"
    for cr in crashes:
        if cr.get("frames"):
            continue
        rep = cr.get("report", "")
        m = re.search(r"(/\S+?):(\d+):\d+: runtime error: ", rep)
        if m:
            cr["frames"] = enclosing_function(m.group(1), int(m.group(2)))
            continue
        names = []
        for mod, off in rx.findall(rep)[:40]:
            f = _sym_cache.get(off, "")
            if f.startswith("ares_") and f not in names:
                names.append(f)
            if len(names) == 2:
                break
        cr["frames"] = "<".join(names)


def read_crashes(trace, exe=None):
    p = trace + ".crashes"
    res = []
    if os.path.exists(p):
        for line in open(p):
            line = line.strip()
            if line:
                res.append(json.loads(line))
    if exe and res:
        with _lock:
            resolve_frames(exe, res)
    return res


# ----------------------------------------------------------------------------------------------
# trace validation
class Trace:
    """index of an event file: history boundaries (line numbers and byte offsets), call counts."""

    def __init__(self, path):
        self.path = path
        self.starts = []      # line number (1-based) of each create event
        self.offs = []        # byte offset of each create event
        self.hids = []
        self.nlines = 0
        self.opcount = {}
        rx_h = re.compile(rb'"h":(-?\d+)')
        rx_e = re.compile(rb'^\{"e":"(\w+)"')
        off = 0
        with open(path, "rb") as f:
            for n, line in enumerate(f, 1):
                m = rx_e.match(line)
                if not m:
                    raise vlib.MachineryError("bad event line %d in %s" % (n, path))
                e = m.group(1).decode()
                self.opcount[e] = self.opcount.get(e, 0) + 1
                if e.startswith("create"):
                    self.starts.append(n)
                    self.offs.append(off)
                    mh = rx_h.search(line[:80])
                    self.hids.append(int(mh.group(1)) if mh else len(self.hids))
                off += len(line)
                self.nlines = n
        self.size = off

    def hist_of_line(self, n):
        import bisect
        return bisect.bisect_right(self.starts, n) - 1

    def lines_of(self, idx):
        a = self.starts[idx]
        b = self.starts[idx + 1] - 1 if idx + 1 < len(self.starts) else self.nlines
        return a, b

    def events(self, idx):
        a = self.offs[idx]
        b = self.offs[idx + 1] if idx + 1 < len(self.offs) else self.size
        with open(self.path, "rb") as f:
            f.seek(a)
            data = f.read(b - a)
        return [json.loads(x) for x in data.decode().splitlines() if x]

    def script(self, c, idx, upto=None, pending=None):
        """the calls of history idx as a replayable script (optionally only up to line `upto`,
        optionally followed by the call that was being executed when the history died)."""
        a, _ = self.lines_of(idx)
        evs = self.events(idx)
        if upto is not None:
            evs = evs[:upto - a + 1]
        cr = evs[0]
        create = ([cr["e"]] if cr["e"] != "create" else []) + cr["a"]
        ops = [[e["e"]] + e["a"] for e in evs[1:] if e["e"] != "destroy"]
        if pending and pending[0] != "destroy" and not pending[0].startswith("create"):
            ops.append(pending)
        return {"c": c, "create": create, "ops": ops}


def validate(ctx, c, trace, pool=None):
    """TLC over the event file (chunked at history boundaries).  Returns the list of unexplained events
    [{fail:<global line>, ...}] and the number of events consumed."""
    t = Trace(trace)
    if t.nlines == 0:
        return t, [], 0
    # chunk boundaries
    chunks = []
    start = 1
    for i, s in enumerate(t.starts):
        nxt = t.starts[i + 1] if i + 1 < len(t.starts) else t.nlines + 1
        if nxt - start > CHUNK and s > start:
            chunks.append((start, s - 1))
            start = s
    chunks.append((start, t.nlines))
    files = []
    if len(chunks) == 1:
        files.append((trace, 0, t.nlines))
    else:
        outs = []
        for k, (a, b) in enumerate(chunks):
            p = "%s.chunk%d" % (trace, k)
            outs.append(open(p, "w"))
            files.append((p, a - 1, b - a + 1))
        k = 0
        with open(trace) as f:
            for n, line in enumerate(f, 1):
                while n > chunks[k][1]:
                    k += 1
                outs[k].write(line)
        for o in outs:
            o.close()
    cfg = MOD[c] + "Trace.cfg"

    def one(item):
        p, off, cnt = item
        r = tlc(ctx, MOD[c] + "Trace", cfg, env={"TRACE": p}, workers=1, timeout=1500, heap="4g")
        fails = []
        for line in r.out.splitlines():
            if line.startswith('"{') and '\\"fail\\"' in line:
                j = json.loads(json.loads(line))
                j["fail"] += off
                fails.append(j)
        if r.violation or "Postcondition" in r.out or r.distinct != cnt + 1:
            raise vlib.MachineryError("trace validation of %s did not consume the file (%d of %d states)\n%s"
                                      % (p, r.distinct, cnt + 1, r.out[-3000:]))
        if p != trace:
            os.unlink(p)
        return fails, r

    with cf.ThreadPoolExecutor(max_workers=4) as ex:
        results = list(ex.map(one, files))
    fails = []
    for fl, r in results:
        fails += fl
        with _lock:
            ctx.cov["states"] += r.distinct
            ctx.cov["transitions"] += r.generated
    # TLC prints a PrintT line once per evaluation; de-duplicate
    seen = set()
    uniqf = []
    for f in sorted(fails, key=lambda x: x["fail"]):
        if f["fail"] not in seen:
            seen.add(f["fail"])
            uniqf.append(f)
    return t, uniqf, t.nlines


# ----------------------------------------------------------------------------------------------
# signatures
def standalone_sig(f):
    r = f["got"]["r"]
    sig = "%s.%s.%s" % (f["c"], f["e"], f["which"])
    if "result" in f["which"]:
        if "rc" in r:
            sig += "." + str(r["rc"])
        elif "ok" in r and r["ok"] != -1:
            sig += ".ok=%s" % r["ok"]
        if r.get("leak", 0) != 0:
            sig += ".leak"
    if f.get("cond") and f["cond"] != "-":
        sig += "." + f["cond"]
    return sig


def crash_sig(cr):
    fr = cr.get("frames") or "no-ares-frame"
    return "%s.sanitizer.%s.%s" % (cr["c"], cr["kind"], fr)


def is_known(ctx, sig):
    return any(k["property"] == ctx.pid and re.search(k["signature"], sig) for k in ctx.kf.get("known", []))


def chain(ctx, sigs):
    """signatures of the deviations of ONE history, in order: the first stands alone; a later one stands alone
    if it is a listed known finding by itself, else it is reported as a consequence of the first."""
    res = []
    for i, s in enumerate(sigs):
        if i == 0 or is_known(ctx, s) or s == sigs[0]:
            res.append(s)
        else:
            res.append(sigs[0] + " >> " + s)
    return res


def history_sigs(ctx, t, fails, crashes):
    """{history index: [(signature, fail-or-crash record)]} for an event file."""
    per = {}
    for f in fails:
        per.setdefault(t.hist_of_line(f["fail"]), []).append(("f", f))
    hid2idx = {}
    for i, h in enumerate(t.hids):
        hid2idx.setdefault(h, i)
    orphan = []
    for cr in crashes:
        idx = hid2idx.get(cr["h"])
        if idx is None:
            orphan.append(cr)       # died in create: no event at all
        else:
            per.setdefault(idx, []).append(("c", cr))
    out = {}
    for idx, items in per.items():
        sigs = [standalone_sig(x) if k == "f" else crash_sig(x) for k, x in items]
        out[idx] = list(zip(chain(ctx, sigs), [x for _, x in items]))
    return out, orphan


# ----------------------------------------------------------------------------------------------
class Campaign:
    """one container: scripts/random -> harness -> TLC -> candidate violations -> confirmation."""

    def __init__(self, ctx, exe, c):
        self.ctx, self.exe, self.c = ctx, exe, c
        self.cands = {}        # signature -> list of (script, text)
        self.stats = {"histories": 0, "accepted": 0, "events": 0, "rejected_histories": 0, "crashed_histories": 0,
                      "families": [], "random": []}
        self.hashes = set()
        self.nontrivial = set()
        self.opcount = {}
        self.samples = []
        self.traces = {}

    def absorb(self, label, trace, exhaustive, scripts_hint=None):
        ctx, c = self.ctx, self.c
        t, fails, nev = validate(ctx, c, trace)
        crashes = read_crashes(trace, self.exe)
        per, orphan = history_sigs(ctx, t, fails, crashes)
        self.traces[trace] = t
        nh = len(t.starts)
        bad = set(per.keys())
        self.stats["histories"] += nh + len(orphan)
        self.stats["accepted"] += nh - len(bad)
        self.stats["events"] += nev
        self.stats["rejected_histories"] += len([i for i in bad if any("fail" in x for _, x in per[i])])
        self.stats["crashed_histories"] += len(crashes)
        for e, n in t.opcount.items():
            self.opcount[e] = self.opcount.get(e, 0) + n
        # distinct / non-trivial scripts: measured on the executed calls
        self._measure(t)
        # candidates: per signature keep the shortest few histories
        for idx, items in per.items():
            for sig, rec in items:
                lst = self.cands.setdefault(sig, [])
                if len(lst) < 3:
                    upto = rec["fail"] if "fail" in rec else None
                    lst.append((idx, trace, upto, rec))
        for cr in orphan:
            self.cands.setdefault(crash_sig(cr), []).append((None, trace, None, cr))
        if not self.samples and nh:
            evs = t.events(0)
            self.samples.append({"container": c, "source": label, "script": t.script(c, 0),
                                 "last_event": evs[-1]})
        ctx.log("%s %s: %d histories, %d events, %d with unexplained events, %d crashed"
                % (c, label, nh, nev, self.stats["rejected_histories"], len(crashes)))
        return t, per

    def _measure(self, t):
        """hash every executed script; non-trivial = at least 3 calls, one of which changed the observed state."""
        cur = None
        h = None
        ncalls = 0
        changed = False
        prev_state = None
        rx = re.compile(r'^\{"e":"(\w+)"(?:,"h":-?\d+)?,"a":(\[.*?\]),"r":')

        def close():
            if h is not None:
                d = h.hexdigest()
                self.hashes.add(d)
                if ncalls >= 3 and changed:
                    self.nontrivial.add(d)
        with open(t.path) as f:
            for line in f:
                m = rx.match(line)
                e, a = (m.group(1), m.group(2)) if m else ("?", "")
                spos = line.rfind(',"s":')
                state = line[spos:]
                if e.startswith("create"):
                    close()
                    h = hashlib.sha1((self.c + e + a).encode())
                    ncalls, changed, prev_state = 0, False, state
                    continue
                if e == "destroy":
                    continue
                h.update((e + a).encode())
                ncalls += 1
                if state != prev_state:
                    changed = True
                prev_state = state
        close()

    def script_of(self, cand):
        idx, trace, upto, rec = cand
        if idx is None:
            # the history died in its create call
            p = rec.get("pending")
            if p and p[0].startswith("create"):
                return {"c": self.c, "create": ([p[0]] if p[0] != "create" else []) + p[1:], "ops": []}
            sc = rec.get("script") or {}
            return {"c": self.c, "create": sc.get("create", []), "ops": sc.get("ops", [])} if "ops" in sc else None
        t = self.traces[trace]
        if "fail" in rec:
            return t.script(self.c, idx, upto)
        return t.script(self.c, idx, None, rec.get("pending"))

    def confirm(self):
        """re-run every candidate history alone; report the signatures that reproduce."""
        ctx, c = self.ctx, self.c
        if not self.cands:
            return
        # a handful of signatures per listed known finding (consequences of a known defect come in many
        # "A >> B" variants), and up to 80 others
        groups = {}
        for s in sorted(self.cands.keys(), key=lambda x: (len(x), x)):
            kid = None
            for k in ctx.kf.get("known", []):
                if k["property"] == ctx.pid and re.search(k["signature"], s):
                    kid = k["id"]
                    break
            groups.setdefault(kid, []).append(s)
        sigs = []
        for kid, lst in groups.items():
            lim = 80 if kid is None else 6
            if len(lst) > lim:
                ctx.log("%s: %d deviation signatures%s, confirming %d" % (c, len(lst), " of " + kid if kid else "", lim))
            sigs += lst[:lim]
        scripts, owner = [], []
        for s in sigs:
            for cand in self.cands[s][:2]:
                sc = self.script_of(cand)
                if sc is None:
                    continue
                scripts.append(sc)
                owner.append(s)
        confirmed = {}
        if scripts:
            sp = os.path.join(ctx.out, "%s_confirm_scripts.ndjson" % c)
            tp = os.path.join(ctx.out, "%s_confirm_trace.ndjson" % c)
            write_scripts(sp, scripts)
            harness(ctx, self.exe, ["replay", sp, tp], env={"DSA_BATCH": "1"})
            t, fails, _ = validate(ctx, c, tp)
            per, orphan = history_sigs(ctx, t, fails, read_crashes(tp, self.exe))
            hid2idx = {h: i for i, h in enumerate(t.hids)}
            for k, (sc, s) in enumerate(zip(scripts, owner)):
                idx = hid2idx.get(k)
                got = [x for x, _ in per.get(idx, [])] if idx is not None else []
                got += [crash_sig(cr) for cr in orphan if cr["h"] == k]
                if s in got and s not in confirmed:
                    rec = [r for x, r in per.get(idx, []) if x == s] if idx is not None else []
                    confirmed[s] = (sc, rec[0] if rec else None)
        for s in sigs:
            if s in confirmed:
                sc, rec = confirmed[s]
                text = "container=%s signature=%s\nscript=%s\n" % (c, s, json.dumps(sc)[:1500])
                if rec is not None:
                    if "fail" in rec:
                        text += "unexplained call %s%s: observed %s\nspecification allows %s\n" % (
                            rec["e"], rec["a"], json.dumps(rec["got"])[:700], json.dumps(rec["expected"])[:700])
                    else:
                        text += "sanitizer/crash: %s\n%s\n" % (rec.get("kind"), rec.get("report", "")[:1800])
                replay = json.dumps({"property": "C19", "signature": s, "c": sc["c"], "create": sc["create"],
                                     "ops": sc["ops"]})
                ctx.violation(s, text, replay_content=replay)
            else:
                with _lock:
                    ctx.notes.setdefault("unreproduced", []).append({"container": c, "signature": s})
                ctx.log("%s: deviation %s did not reproduce on a single re-run (not reported)" % (c, s))


def random_runs(ctx, c, quick):
    """(seed offset, nops, nkeys, nhist, exclude) of the seeded random campaigns."""
    if quick:
        base = {"array": (400, 16, 60), "slist": (1200, 8, 16), "htable": (1500, 40, 24), "llist": (1200, 16, 20),
                "buf": (1200, 16, 24)}[c]
    else:
        base = {"array": (1500, 40, 500), "slist": (3000, 16, 120), "htable": (4000, 100, 200),
                "llist": (3000, 32, 200), "buf": (3000, 32, 250)}[c]
    nops, nkeys, nhist = base
    runs = [(0, nops, nkeys, nhist, "")]
    if c == "array":
        runs.append((1, nops // 4, 4, nhist * 2, ""))
    if c == "htable" and not quick:
        runs.append((2, 6000, 400, 12, ""))
    return runs


def campaign(ctx, exe, c, kf_scripts):
    quick = ctx.quick
    cam = Campaign(ctx, exe, c)
    # ---- exhaustive scripts from TLC
    for label, depth, size, ops in families(c, quick):
        t0 = time.time()
        opslists, r = generate(ctx, c, depth, size, ops)
        scripts = expand(c, opslists, label, quick)
        sp = os.path.join(ctx.out, "%s_%s_scripts.ndjson" % (c, label))
        tp = os.path.join(ctx.out, "%s_%s_trace.ndjson" % (c, label))
        write_scripts(sp, scripts)
        harness(ctx, exe, ["replay", sp, tp])
        cam.absorb("exhaustive:" + label, tp, True)
        cam.stats["families"].append({"family": label, "depth": depth, "size": size, "calls": ops,
                                      "scripts_from_tlc": len(opslists), "histories_replayed": len(scripts),
                                      "exhaustive": True, "gen_states": r.distinct, "wall_s": round(time.time() - t0, 1)})
        with _lock:
            ctx.cov["states"] += r.distinct
            ctx.cov["transitions"] += r.generated
        os.unlink(sp)
    # ---- the listed known-finding histories are always executed
    mine = [s for s in kf_scripts if s["c"] == c]
    if mine:
        sp = os.path.join(ctx.out, "%s_kf_scripts.ndjson" % c)
        tp = os.path.join(ctx.out, "%s_kf_trace.ndjson" % c)
        write_scripts(sp, mine)
        harness(ctx, exe, ["replay", sp, tp], env={"DSA_BATCH": "1"})
        cam.absorb("known-finding replays", tp, False)
    # ---- seeded random long histories
    for k, nops, nkeys, nhist, excl in random_runs(ctx, c, quick):
        seed = ctx.seed * 10 + k
        tp = os.path.join(ctx.out, "%s_random%d_trace.ndjson" % (c, k))
        harness(ctx, exe, ["random", c, seed, nops, nkeys, tp, nhist], env={"DSA_EXCLUDE": excl} if excl else None)
        t, per = cam.absorb("random seed=%d nops=%d nkeys=%d nhist=%d%s" % (seed, nops, nkeys, nhist,
                                                                           (" without " + excl) if excl else ""), tp, False)
        cam.stats["random"].append({"seed": seed, "nops": nops, "nkeys": nkeys, "histories": nhist, "without": excl,
                                    "events": t.nlines, "exhaustive": False})
    missing = [o for o in RANDOM_MUST[c] if cam.opcount.get(o, 0) == 0]
    if missing:
        raise vlib.MachineryError("%s: calls never exercised: %s" % (c, missing))
    cam.confirm()
    return cam


def corrupted_trace_selftest(ctx, exe):
    """flip one field of an accepted trace: TLC must reject it (binding self-test, not part of the verdict)."""
    res = {}
    script = {"c": "slist", "create": [1], "ops": [["insert", 2, 1], ["insert", 1, 2], ["insert", 3, 3], ["find", 3],
                                                  ["claim", 2], ["reinsert", 1, 5]]}
    sp = os.path.join(ctx.out, "selftest_scripts.ndjson")
    tp = os.path.join(ctx.out, "selftest_trace.ndjson")
    write_scripts(sp, [script])
    harness(ctx, exe, ["replay", sp, tp])
    _, fails, n = validate(ctx, "slist", tp)
    if fails:
        return {"skipped": "reference history not accepted on this tree"}
    lines = open(tp).read().splitlines()
    muts = {"result": (4, '"r":{"out":3', '"r":{"out":1'), "order": (3, '"ids":[2,1,3]', '"ids":[1,2,3]'),
            "lost_member": (6, '"len":2', '"len":3')}
    for name, (ln, a, b) in muts.items():
        if a not in lines[ln]:
            raise vlib.MachineryError("self-test: pattern %s not in %s" % (a, lines[ln]))
        cp = os.path.join(ctx.out, "selftest_%s.ndjson" % name)
        with open(cp, "w") as f:
            f.write("\n".join(lines[:ln] + [lines[ln].replace(a, b, 1)] + lines[ln + 1:]) + "\n")
        _, fl, _ = validate(ctx, "slist", cp)
        res[name] = "rejected" if fl else "ACCEPTED"
        if not fl:
            raise vlib.MachineryError("self-test: corrupted trace (%s) was accepted" % name)
    return res


def load_kf_scripts(ctx):
    """the histories of the findings of this property (listed as known or since fixed) are always executed."""
    import glob
    res = []
    for p in sorted(glob.glob(os.path.join(vlib.ROOT, "replays", "kf-c19-*.json"))):
        j = json.load(open(p))
        res.append({"c": j["c"], "create": j.get("create", []), "ops": j["ops"]})
    return res


def run_replay(ctx, exe):
    """--replay file: one recorded script (JSON object with c/create/ops), re-run and re-judged."""
    txt = open(ctx.replay).read()
    try:
        objs = [json.loads(txt)]
    except ValueError:
        objs = [json.loads(x) for x in txt.splitlines() if x.strip()]
    for c in sorted(set(o["c"] for o in objs)):
        cam = Campaign(ctx, exe, c)
        sp = os.path.join(ctx.out, "%s_replay_scripts.ndjson" % c)
        tp = os.path.join(ctx.out, "%s_replay_trace.ndjson" % c)
        write_scripts(sp, [{"c": c, "create": o.get("create", []), "ops": o["ops"]} for o in objs if o["c"] == c])
        harness(ctx, exe, ["replay", sp, tp], env={"DSA_BATCH": "1"})
        cam.absorb("replay " + os.path.basename(ctx.replay), tp, False)
        cam.confirm()
        ctx.cov["traces_validated_against_impl"] += cam.stats["accepted"]
        ctx.cov["evaluations"] += cam.stats["events"]
        ctx.cov["distinct_nontrivial"] += len(cam.nontrivial)
        for smp in cam.samples:
            ctx.sample(smp)
    ctx.cov["rule"] = "replay of a recorded script"


def run(ctx):
    exe = ctx.build_harness("dsa")
    ctx.assumptions += [
        "the harness reports faithfully what the container's own read API returns (it holds no model and makes no verdict)",
        "allocation failures are not injected here (C14); ENOMEM outcomes are not part of the container specifications",
        "keys/values are small integers mapped to the wrapper's key/value types; the generic hash table is driven "
        "with a weak hash function to force collision chains and chain splits on growth",
        "the skip list's coin flips come from a seeded source through hook H2 so that a history is reproducible",
    ]
    if ctx.replay:
        run_replay(ctx, exe)
        return
    quick = ctx.quick
    # 1. model-check the ADT laws
    mcs = [("Array", "Array_mc.cfg"), ("SList", "SList_mc.cfg"), ("HTable", "HTable_mc.cfg"), ("LList", "LList_mc.cfg"),
           ("Buf", "Buf_mc.cfg" if quick else "Buf_mc4.cfg")]
    def mc(m, cfg):
        SLOTS.acquire(2)
        try:
            r = ctx.model_check("Containers/%s.tla" % m, cfg, workers=2, timeout=900, extra=["-noGenerateSpecTE"],
                                coverage=not quick)
            dead = [a for a, (taken, _) in r.coverage.items() if taken == 0 and a not in ("Init",)]
            if not quick and dead:
                raise vlib.MachineryError("model %s: actions never taken: %s" % (m, dead))
            return r
        finally:
            SLOTS.release(2)
    with cf.ThreadPoolExecutor(max_workers=5) as ex:
        futs = {m: ex.submit(mc, m, cfg) for m, cfg in mcs}
        for m, f in futs.items():
            r = f.result()
            if r.violation:
                raise vlib.MachineryError("ADT law violated in the model %s itself: %s\n%s" % (m, r.violation, r.out[-3000:]))
    ctx.log("ADT laws model-checked: %d distinct states" % ctx.cov["states"])
    # 2-5. the five campaigns side by side
    kf_scripts = load_kf_scripts(ctx)
    cams = {}
    with cf.ThreadPoolExecutor(max_workers=5) as ex:
        futs = {c: ex.submit(campaign, ctx, exe, c, kf_scripts) for c in CONTAINERS}
        for c, f in futs.items():
            cams[c] = f.result()
    # 6. binding self-test
    ctx.notes["corrupted_trace_selftest"] = corrupted_trace_selftest(ctx, exe)
    # evidence
    ctx.cov["traces_validated_against_impl"] = sum(cm.stats["accepted"] for cm in cams.values())
    ctx.cov["evaluations"] = sum(cm.stats["events"] for cm in cams.values())
    ctx.cov["distinct_nontrivial"] = sum(len(cm.nontrivial) for cm in cams.values())
    ctx.cov["rule"] = ("distinct = SHA-1 of (container, create call, executed calls with arguments); non-trivial = at least "
                       "3 API calls of which at least one changed the observed container content")
    ctx.notes["containers"] = {c: dict(cm.stats, distinct_scripts=len(cm.hashes), nontrivial_scripts=len(cm.nontrivial),
                                       calls=cm.opcount) for c, cm in cams.items()}
    ctx.notes["exhaustive_families"] = {c: [dict(family=f["family"], depth=f["depth"], exhaustive=True, scripts=f["scripts_from_tlc"])
                                  for f in cm.stats["families"]] for c, cm in cams.items()}
    for cm in cams.values():
        for s in cm.samples:
            ctx.sample(s)
    ctx.log("covered: %d histories accepted, %d events judged by TLC, %d distinct non-trivial scripts"
            % (ctx.cov["traces_validated_against_impl"], ctx.cov["evaluations"], ctx.cov["distinct_nontrivial"]))
