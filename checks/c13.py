"""C13 - address lookups return exactly the addresses the answers contain (Lookup facet)."""
import mutators
import simlib

KEEP = {"init", "call", "sk", "cbb", "crash"}
FACETS = [("LookupTrace.tla", "LookupTrace.cfg", KEEP, {"send", "recv"})]


def run(ctx):
    gens = [{"module": "GenLookup.tla", "cfg": "Gen_C13_quick.cfg" if ctx.quick else "Gen_C13_thorough.cfg", "name": "bfs"},
            # the same lookup issued again with the query cache on: sub-queries answered from the cache
            {"module": "GenLookup.tla", "cfg": "Gen_C13_repeat.cfg", "name": "repeat"},
            # sortlists: addresses matching early / late / no entry, IPv4 and IPv6 entries, hosts-file addresses
            {"module": "GenLookup.tla", "cfg": "Gen_C13_sort.cfg", "name": "sortlist"},
            # both families asked, answers whose RFC 6724 order interleaves the families
            {"module": "GenLookup.tla", "cfg": "Gen_C13_mix.cfg", "name": "mixfam"}]
    simlib.engine_check(ctx, gens, FACETS, labels=("c13.",), selftests=mutators.LOOKUP)
