"""C05 - only an authentic, matching response can answer a query (Accept facet)."""
import mutators
import simlib

KEEP = {"init", "call", "sk", "env", "srv", "cbb", "crash"}
# The cookie clause of C05 ("carries a well-formed cookie echoing the client cookie") depends on the per-server
# cookie state, which is the Cookie facet (C17): its delivery rule is judged here as well.
CK_KEEP = {"init", "call", "adv", "sk", "env", "cbb", "crash"}
FACETS = [("AcceptTrace.tla", "AcceptTrace.cfg", KEEP, None), ("CookieTrace.tla", "CookieTrace.cfg", CK_KEEP, None)]
LABELS = ("c05.", "c17.response_failing_cookie_checks_delivered")


def run(ctx):
    # server cookie behaviours x source-address changes (cookie-less and wrong-cookie replies from a supporting server)
    ck = {"module": "Gen_C17.tla", "cfg": "Gen_C17_accept.cfg", "name": "cookie"}
    # requests that differ only in type or class, with the query cache on (what may be replayed to whom)
    types = {"module": "Gen_C08.tla", "cfg": "Gen_C08_types.cfg", "name": "types"}
    batch = {"module": "GenBatch.tla", "cfg": "GenBatch.cfg", "name": "batch"}
    if ctx.quick:
        gens = [{"module": "Gen_C05.tla", "cfg": "Gen_C05_quick.cfg", "name": "bfs"}, ck, batch, types]
    else:
        gens = [{"module": "Gen_C05.tla", "cfg": "Gen_C05_thorough.cfg", "name": "bfs"},
                {"module": "Gen_C05.tla", "cfg": "Gen_C05_sim.cfg", "name": "sim", "simulate": 2000, "depth": 14}, ck, batch, types]
    simlib.engine_check(ctx, gens, FACETS, labels=LABELS, selftests=mutators.ACCEPT)
