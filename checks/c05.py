"""C05 - only an authentic, matching response can answer a query (Accept facet)."""
import mutators
import simlib

KEEP = {"init", "call", "sk", "env", "srv", "cbb", "crash"}
FACETS = [("AcceptTrace.tla", "AcceptTrace.cfg", KEEP, None)]


def run(ctx):
    if ctx.quick:
        gens = [{"module": "Gen_C05.tla", "cfg": "Gen_C05_quick.cfg", "name": "bfs"}]
    else:
        gens = [{"module": "Gen_C05.tla", "cfg": "Gen_C05_thorough.cfg", "name": "bfs"},
                {"module": "Gen_C05.tla", "cfg": "Gen_C05_sim.cfg", "name": "sim", "simulate": 2000, "depth": 14}]
    simlib.engine_check(ctx, gens, FACETS, labels=("c05.",), selftests=mutators.ACCEPT)
