"""C15 - configuration text is parsed robustly and line-independently.

TLC (specs/Config/ConfigLines.tla, ConfigStrings.tla) proves LineIndependent / InRange on the specification
and enumerates configuration scenarios with the expected effective configuration; harness/cfg executes every
scenario against the real library (ASan/UBSan, allocation ledger + LeakSanitizer, per-scenario timeout);
this module compares: observation vs. specification, and junk-containing scenario vs. its junk-free twin.
"""
import json
import os
import sys
import time

ROOT = os.path.dirname(os.path.dirname(os.path.abspath(__file__)))
sys.path.insert(0, os.path.join(ROOT, "harness", "cfg"))
import cfgbind as B  # noqa: E402
import vlib  # noqa: E402

VIEW_FIELDS = ("flags", "timeout", "tries", "ndots", "rotate", "servers", "domains", "lookups", "sortlist")


def parse_tlc_json(out, kind):
    recs = []
    for line in out.splitlines():
        if line.startswith('"{') and kind in line:
            try:
                j = json.loads(json.loads(line))
            except ValueError:
                raise vlib.MachineryError("cannot parse TLC JSON line: %r" % line[:300])
            recs.append(j)
    return recs


def tlc_run(ctx, spec, cfg, **kw):
    r = ctx.model_check(spec, cfg, deadlock=False, **kw)
    if r.violation:
        raise vlib.MachineryError("the specification violates its own invariant %s in %s/%s:\n%s" %
                                  (r.violation, spec, cfg, r.out[-3000:]))
    return r


# ------------------------------------------------------------------ classification of a deviating scenario
def zero_value_option(text):
    """True if an 'options' line (or RES_OPTIONS value) holds timeout/retrans/attempts/retry whose value reads as 0."""
    t = B.b(text)
    if t.lstrip().startswith(b"options"):
        t = t.lstrip()[7:]
    for tok in t.split():
        kv = tok.split(b":", 1)
        if kv[0] in (b"timeout", b"retrans", b"attempts", b"retry"):
            v = kv[1] if len(kv) > 1 else b""
            digits = b""
            vv = v.lstrip()
            neg = vv.startswith(b"-")
            if vv[:1] in (b"+", b"-"):
                vv = vv[1:]
            for ch in vv:
                if 48 <= ch <= 57:
                    digits += bytes([ch])
                else:
                    break
            n = int(digits) if digits else 0
            if neg:
                n = -n
            if n % (1 << 32) == 0 or n >= (1 << 64):
                if n % (1 << 32) == 0:
                    return True
    return False


BASE_TEXT = b"nameserver 10.0.0.2\nsearch b.example\noptions ndots:2\n"     # BaseLines of ConfigLines.tla


class Campaign:
    """One TLC-generated family executed on the real code."""

    def __init__(self, ctx, exe, name, recs, private_etc, mode="init"):
        self.ctx, self.exe, self.name, self.recs, self.private = ctx, exe, name, recs, private_etc
        self.mode = mode                                   # "init": observe after ares_init_options
        self.file_op = 0 if mode == "init" else 2          # "reinit": init from BASE, rewrite, ares_reinit, observe
        self.obs_op = 1 if mode == "init" else 3
        self.expect_key = "expect" if mode == "init" else "expect_reinit"
        self.by_key = {}
        self.accepted = set()
        self.scn = {}
        self.texts = {}
        self.results = {}
        self.nviol = 0

    def run(self, nproc=8):
        ctx = self.ctx
        scns = []
        for n, rec in enumerate(self.recs):
            sid = "%s-%d" % (self.name, n)
            sc, texts = B.build_c15_scenario(sid, rec, ctx.seed)
            if self.mode == "reinit":
                sc["ops"] = [{"op": "write", "path": "$W/resolv.conf", "content": B.lat(BASE_TEXT)}, sc["ops"][1],
                             sc["ops"][0], {"op": "reinit", "ch": 0}]
            if not self.private:
                if sc["etc"]:
                    continue          # needs a private /etc
                del sc["etc"]
            self.by_key[B.scenario_key(rec)] = sid
            self.scn[sid] = (rec, sc)
            self.texts[sid] = texts
            scns.append(sc)
        t0 = time.time()
        self.results, self.summ = B.run_harness(self.exe, scns, os.path.join(ctx.out, self.name), nproc=nproc,
                                                timeout=1500)
        ctx.log("%s: %d scenarios executed in %.1fs" % (self.name, len(scns), time.time() - t0))
        for s in self.summ:
            if s.get("batch_leak"):
                # LeakSanitizer saw a leak the ledger did not attribute: report it unattributed
                ctx.violation("c15.leak.unattributed(%s)" % self.name,
                              "LeakSanitizer reported a leak in batch %s..%s of %s that the allocation ledger did not see"
                              % (s.get("from"), s.get("to"), self.name))
        return len(scns)

    def view(self, sid):
        recs = self.results.get(sid)
        st, leak, detail = B.status_of(recs)
        if st != "ok":
            return st, leak, detail, None
        r = B.op_record(recs, self.obs_op)
        if r is None or r.get("rc") != "SUCCESS" or "obs" not in r:
            return "initfail:%s" % (r or {}).get("rc"), leak, detail, None
        return "ok", leak, detail, B.view_of_obs(r["obs"])

    def junk_lines(self, sid):
        rec, _ = self.scn[sid]
        t = self.texts[sid]
        out = []
        for fname, junk in (("resolv", B.JUNK | B.EXTREME), ("nss", B.NSS_JUNK), ("netsvc", B.SVC_JUNK), ("svc", B.SVC_JUNK)):
            for i, c in enumerate(rec["files"][fname]):
                if c in junk:
                    out.append((fname, i, c, t[fname][i]))
        ld, ro = rec["env"]["localdomain"], rec["env"]["res_options"]
        if ld in ("ld_empty", "ld_binary"):
            out.append(("LOCALDOMAIN", 0, ld, t["env"]["LOCALDOMAIN"]))
        if ro != "unset" and (ro in B.JUNK or ro in B.EXTREME):
            out.append(("RES_OPTIONS", 0, ro, t["env"]["RES_OPTIONS"]))
        return out

    def describe(self, sid):
        rec, sc = self.scn[sid]
        return json.dumps({"family": self.name, "abstract": {"files": rec["files"], "env": rec["env"]},
                           "expect": rec[self.expect_key], "scenario": sc}, sort_keys=True)


EXTREME_FIELD = {"opt_ndots_weird": "ndots", "opt_ndots_big": "ndots", "opt_timeout_huge": "timeout",
                 "opt_tries_huge": "tries"}
NUM_OPT_FIELD = {"ndots": "ndots", "timeout": "timeout", "attempts": "tries"}


def extreme_field(c):
    """The field a numeric-extreme class controls (opt_num_<key>_<numeral>: from its name)."""
    if c in EXTREME_FIELD:
        return EXTREME_FIELD[c]
    if isinstance(c, str) and c.startswith("opt_num_") and c in B.EXTREME:
        return NUM_OPT_FIELD[c.split("_")[2]]
    return None
DEFAULT_VIEW = {"timeout": 2000, "tries": 3, "ndots": 1, "rotate": False, "domains": [], "lookups": "fb",
                "sortlist": [], "servers": [("127.0.0.1", 53, 53, "")]}


def field_classes(field, classes):
    pre = {"servers": ("ns_",), "domains": ("dom_", "search_"), "sortlist": ("sort_",), "lookups": ("lookup_", "nss_", "svc_"),
           "ndots": ("opt_",), "timeout": ("opt_",), "tries": ("opt_",), "rotate": ("opt_",), "flags": ("opt_",)}[field]
    return sorted(set(c for c in classes if c.startswith(pre)))


def check_campaign(ctx, cam, stats):
    """Compare every scenario of a campaign.  Returns deviations (sid, kind, fields, detail):
    kind in crash/timeout/missing/initfail*, leak, range (a numeric extreme left the documented range),
    mismatch (differs from the specification or from the junk-free twin)."""
    devs = []
    ignore = () if cam.private else ("lookups",)
    fb = [("127.0.0.1", 53, 53, "")] if cam.mode == "init" else [("10.0.0.2", 53, 53, "")]
    views, own = {}, {}
    for sid, (rec, sc) in cam.scn.items():
        st, leak, detail, view = cam.view(sid)
        views[sid] = (st, leak, detail, view)
        if view is not None:
            own[sid] = B.compare_view(view, rec[cam.expect_key], tolerate_usevc_init=False, tolerate_ll_missing=False,
                                      ignore=ignore, fallback_servers=fb)
    for sid, (rec, sc) in cam.scn.items():
        st, leak, detail, view = views[sid]
        stats["executed"] += 1
        if st == "skipped":
            stats["skipped"] += 1
            continue
        if st in ("crash", "timeout", "missing") or st.startswith("initfail"):
            devs.append((sid, st, (), detail))
            continue
        bad = False
        if leak:
            devs.append((sid, "leak", (), detail))
            bad = True
        exp = rec[cam.expect_key]
        diff = list(own[sid])
        # numeric extremes: the field an extreme class controls is outside the allowed set
        ext = {}
        for c in list(rec["files"]["resolv"]) + [rec["env"]["res_options"]]:
            if extreme_field(c):
                ext.setdefault(extreme_field(c), set()).add(c)
        for f in list(diff):
            if f in ext and not all(view[k] == DEFAULT_VIEW[k] for k in DEFAULT_VIEW):
                devs.append((sid, "range", (f,), json.dumps({"field": f, "observed": view[f], "allowed": exp[f],
                                                              "classes": sorted(ext[f])})))
                diff.remove(f)
                bad = True
        tdiff = []
        if rec["has_junk"]:
            tsid = cam.by_key.get(B.twin_key(rec))
            if tsid is not None and views[tsid][0] == "ok":
                tview = views[tsid][3]
                stats["twin_compared"] += 1
                tdiff = [f for f in VIEW_FIELDS if f not in ignore and view[f] != tview[f]]
                # what the junk-free twin already gets wrong is the twin's deviation, not an effect of the junk
                diff = [f for f in diff if f not in own.get(tsid, ()) or f in tdiff]
                if not diff and not tdiff and own[sid]:
                    stats["inherits_twin_deviation"] = stats.get("inherits_twin_deviation", 0) + 1
                    bad = True
        if diff or tdiff:
            devs.append((sid, "mismatch", tuple(sorted(set(diff) | set(tdiff))), json.dumps(
                {"observed": {k: (sorted(v) if isinstance(v, frozenset) else v) for k, v in view.items()},
                 "spec_diff": diff, "twin_diff": tdiff})))
            bad = True
        if not bad:
            stats["accepted"] += 1
            cam.accepted.add(sid)
    return devs


ETCNAME = {"nss": "nsswitch.conf", "netsvc": "netsvc.conf", "svc": "svc.conf"}


def without(cam, sid, drop):
    """The concrete scenario of sid with LF line ends, minus the lines (file, index) / env names in drop."""
    rec, sc = cam.scn[sid]
    texts = cam.texts[sid]
    sc2 = json.loads(json.dumps(sc))
    lines = [t for i, t in enumerate(texts["resolv"]) if ("resolv", i) not in drop]
    sc2["ops"][cam.file_op]["content"] = B.lat(b"\n".join(lines) + (b"\n" if lines else b""))
    for fname, etcname in ETCNAME.items():
        if rec["files"][fname] and "etc" in sc2:
            lines = [t for i, t in enumerate(texts[fname]) if (fname, i) not in drop]
            if lines:
                sc2["etc"][etcname] = B.lat(b"\n".join(lines) + b"\n")
            else:
                sc2["etc"].pop(etcname, None)
    for name in ("LOCALDOMAIN", "RES_OPTIONS"):
        if (name, 0) in drop and "env" in sc2:
            sc2["env"].pop(name, None)
    return sc2


def pure_junk(jl):
    return [x for x in jl if x[2] not in B.EXTREME]


WITNESS = b"nameserver 10.7.7.7"


def isolate(ctx, cam, devs, stats):
    """For mismatching scenarios find the junk CLASSES that are individually responsible: the junk-free twin plus
    only the lines of one junk class (positions and all texts kept) is executed and compared with the twin; a second
    run with a witness nameserver line in front tells "this class made the parser drop everything" from a local
    effect.  -> {sid: [(file, class, [texts], effect)]}"""
    jobs = []
    seen = {}
    for sid, kind, fields, _ in devs:
        if kind != "mismatch":
            continue
        jl = pure_junk(cam.junk_lines(sid))
        if not jl:
            continue
        # numeric classes (ConfigNum.tla) have exactly one text: scenarios that differ only in the context line share
        # the analysis of their junk
        ctx_free = all(f == "resolv" and c in B.VARIANTS and len(B.VARIANTS[c]) == 1 and "_num_" in c for f, _, c, _ in jl)
        key = (tuple((f, c, t) for f, _, c, t in jl), fields,
               () if ctx_free else tuple(cam.scn[sid][0]["files"]["resolv"]))
        if key in seen:
            seen[key].append(sid)
            continue
        seen[key] = [sid]
        alljunk = set((ff, i) for ff, i, _, _ in jl)
        groups = sorted(set((f, c) for f, _, c, _ in jl))
        for n, (f, c) in enumerate(groups):
            keep = set((ff, i) for ff, i, cc, _ in jl if (ff, cc) == (f, c))
            sc2 = without(cam, sid, alljunk - keep)
            sc2["id"] = "%s~%d" % (sid, n)
            jobs.append(sc2)
            sc4 = json.loads(json.dumps(sc2))
            sc4["id"] = "%s~w%d" % (sid, n)
            sc4["ops"][cam.file_op]["content"] = B.lat(WITNESS + b"\n") + sc4["ops"][cam.file_op]["content"]
            jobs.append(sc4)
        sc3 = without(cam, sid, alljunk)
        sc3["id"] = "%s~ref" % sid
        jobs.append(sc3)
    if not jobs:
        return {}
    res, _ = B.run_harness(cam.exe, jobs, os.path.join(ctx.out, cam.name + "-iso"), nproc=8, timeout=900)
    stats["isolation_runs"] += len(jobs)
    culprits = {}
    for key, sids in seen.items():
        sid = sids[0]
        jl = pure_junk(cam.junk_lines(sid))
        groups = sorted(set((f, c) for f, _, c, _ in jl))

        def v(tag):
            recs = res.get("%s~%s" % (sid, tag))
            r = B.op_record(recs or [], cam.obs_op)
            if B.status_of(recs)[0] != "ok" or r is None or "obs" not in r:
                return None
            return B.view_of_obs(r["obs"])
        ref = v("ref")
        cl = []
        for n, (f, c) in enumerate(groups):
            w = v(str(n))
            ww = v("w%d" % n)
            texts = [t for ff, _, cc, t in jl if (ff, cc) == (f, c)]
            if ref is None or w is None:
                cl.append((f, c, texts, "not_executable"))
                continue
            fd = [k for k in VIEW_FIELDS if ref[k] != w[k]]
            if not fd:
                continue
            if ww is not None and not any(sv[0] == "10.7.7.7" for sv in ww["servers"]):
                eff = "all_system_configuration_dropped"
            elif fd == ["sortlist"] and w["sortlist"] == []:
                eff = "earlier_sortlist_cleared"
            else:
                eff = "fields=" + ",".join(fd)
            cl.append((f, c, texts, eff))
        for s_ in sids:
            culprits[s_] = cl
    return culprits


def text_sig(text):
    t = B.b(text)
    if len(t) > 48:
        return "%s..(%d bytes)" % (t[:24].decode("latin-1").encode("unicode_escape").decode(), len(t))
    return t.decode("latin-1").encode("unicode_escape").decode()


def emit_violation(ctx, stats, sig, txt, replay):
    """One ctx.violation per signature (first example kept as replay), the rest are counted."""
    seen = stats.setdefault("signatures", {})
    if sig in seen:
        seen[sig] += 1
        return
    seen[sig] = 1
    if ctx.violation(sig, txt, replay_content=replay):
        stats["violations"] += 1


def lsan_report(ctx, cam, sid):
    """Re-run one scenario alone with LeakSanitizer after it, to attach the allocation stack."""
    rec, sc = cam.scn[sid]
    sc2 = json.loads(json.dumps(sc))
    sc2["id"] = "lsan"
    res, _ = B.run_harness(cam.exe, [sc2], os.path.join(ctx.out, "lsan"), nproc=1, lsan_each=True)
    for r in res.get("lsan", []):
        if r.get("leak_report"):
            return r["leak_report"][:2500]
    return "(LeakSanitizer did not confirm; reported by the allocation ledger)"


def report(ctx, cam, devs, culprits, stats):
    seen = stats.setdefault("signatures", {})
    for sid, kind, fields, detail in devs:
        rec, sc = cam.scn[sid]
        jl = cam.junk_lines(sid)
        if kind in ("crash", "timeout", "missing") or kind.startswith("initfail"):
            if kind == "crash":
                sig = "c15.crash %s" % B.crash_sig(detail)
            else:
                sig = "c15.%s family=%s junk=%s" % (kind, cam.name, sorted(set(c for _, _, c, _ in jl)))
            emit_violation(ctx, stats, sig, "%s: initialisation of scenario %s %s\n%s\n%s" %
                           (sig, sid, kind, detail, cam.describe(sid)[:2000]), cam.describe(sid))
        elif kind == "leak":
            zero = [text_sig(t) for f, _, c, t in jl if zero_value_option(t)]
            if zero:
                sig = "c15.leak.options.zero_value"
                stats["leak_zero_value"] += 1
            else:
                sig = "c15.leak.other family=%s lines=%s" % (cam.name, [text_sig(t) for _, _, _, t in jl])
            if sig not in seen:
                detail = lsan_report(ctx, cam, sid)
            emit_violation(ctx, stats, sig, "%s: memory leaked while parsing scenario %s (zero-valued options: %s)\n%s\n%s" %
                           (sig, sid, zero, detail, cam.describe(sid)[:1500]), cam.describe(sid))
        elif kind == "range":
            d = json.loads(detail)
            sig = "c15.range.%s at=%s classes=%s" % (d["field"], cam.mode, d["classes"])
            emit_violation(ctx, stats, sig, "%s: scenario %s: %s = %s is outside the documented range (allowed %s)\n%s" %
                           (sig, sid, d["field"], d["observed"], B.short(d["allowed"], 80), cam.describe(sid)[:2500]),
                           cam.describe(sid))
            stats["range"] += 1
        elif kind == "mismatch":
            pj = pure_junk(jl)
            stats["mismatches"] += 1
            cl = culprits.get(sid) if pj else None
            if pj and cl:
                for f, c, ts, eff in cl:
                    sig = "c15.line_dependence at=%s culprit=%s:%s effect=%s" % (cam.mode, f, c, eff)
                    txt = ("%s: junk of class %s changes the effective configuration (scenario %s differs from the "
                           "specification / its junk-free twin in %s); texts %s\n%s\n%s" % (
                               sig, c, sid, list(fields), [text_sig(t) for t in ts], detail[:1500], cam.describe(sid)[:2500]))
                    emit_violation(ctx, stats, sig, txt, cam.describe(sid))
            elif pj:
                sig = "c15.line_dependence at=%s joint=%s fields=%s" % (cam.mode, sorted(set("%s:%s" % (f, c) for f, _, c, _ in pj)),
                                                                  list(fields))
                emit_violation(ctx, stats, sig, "%s: scenario %s differs from the specification / its junk-free twin; no "
                               "single junk class is responsible\n%s\n%s" % (sig, sid, detail[:1500], cam.describe(sid)[:2500]),
                               cam.describe(sid))
            else:
                allc = (list(rec["files"]["resolv"]) + list(rec["files"]["nss"]) + list(rec["files"]["netsvc"]) +
                        list(rec["files"]["svc"]) + [rec["env"]["res_options"]])
                sig = "c15.sys_mismatch at=%s fields=%s classes=%s" % (
                    cam.mode, list(fields), sorted(set(sum((field_classes(f, allc) for f in fields), []))))
                txt = "%s: configuration %s gives an effective configuration the specification does not allow\n%s\n%s" % (
                    sig, sid, detail[:1500], cam.describe(sid)[:2500])
                emit_violation(ctx, stats, sig, txt, cam.describe(sid))


def run_family(ctx, exe, name, cfg, stats, private, workers=8, timeout=900, simulate=None, depth=None,
               reinit_maxlen=None):
    kw = {}
    if simulate:
        kw.update(simulate=simulate, depth=depth, seed=ctx.seed)
    r = tlc_run(ctx, "Config/ConfigLines.tla", cfg, workers=workers, timeout=timeout, **kw)
    recs = parse_tlc_json(r.out, '\\"kind\\":\\"c15\\"')
    if simulate:       # simulation repeats states: keep distinct scenarios, in a canonical order
        uniq = {}
        for rec in recs:
            uniq.setdefault(B.scenario_key(rec), rec)
        # TLC's simulator evaluates the invariant on every successor it generates, so a few hundred traces already
        # print ~10^5 scenarios; keep a deterministic subset
        keys = sorted(uniq, key=lambda k: B.h32(ctx.seed, "sim", k))[:60000]
        recs = [uniq[k] for k in sorted(keys, key=repr)]
    else:
        recs.sort(key=lambda rec: repr(B.scenario_key(rec)))
    if not recs:
        raise vlib.MachineryError("TLC printed no scenario for %s" % cfg)
    for rec in recs:
        B.register_numeric(rec)
    ctx.log("%s: TLC %d distinct states, %d scenarios, %.1fs" % (name, r.distinct, len(recs), r.wall))
    cam = Campaign(ctx, exe, name, recs, private)
    cam.run()
    devs = check_campaign(ctx, cam, stats)
    culprits = isolate(ctx, cam, devs, stats)
    report(ctx, cam, devs, culprits, stats)
    stats["families"][name] = {"cfg": cfg, "tlc_states": r.distinct, "scenarios": len(cam.scn),
                               "deviating": len(devs)}
    cam.deviating = set(d[0] for d in devs)
    out = [cam]
    if reinit_maxlen is not None:
        # the same texts applied through ares_reinit to a channel initialised from BaseLines
        sub = [rec for rec in recs if len(rec["files"]["resolv"]) <= reinit_maxlen]
        cam2 = Campaign(ctx, exe, name + "-reinit", sub, private, mode="reinit")
        cam2.run()
        devs2 = check_campaign(ctx, cam2, stats)
        culprits2 = isolate(ctx, cam2, devs2, stats)
        report(ctx, cam2, devs2, culprits2, stats)
        stats["families"][name + "-reinit"] = {"cfg": cfg, "scenarios": len(cam2.scn), "deviating": len(devs2)}
        cam2.deviating = set(d[0] for d in devs2)
        out.append(cam2)
    # samples for the evidence
    for sid in list(cam.scn)[:2]:
        rec, sc = cam.scn[sid]
        ctx.sample({"family": name, "files": rec["files"], "env": rec["env"],
                    "resolv.conf": B.short(sc["ops"][0]["content"], 120)})
    return out


def trace_events(cam, seed, limit):
    """Recorded observations of the accepted scenarios of a campaign, as ConfigTrace.tla events."""
    sids = sorted(cam.accepted, key=lambda s: B.h32(seed, "trace", s))[:limit]
    evs = []
    for sid in sids:
        rec, sc = cam.scn[sid]
        st, leak, _, view = cam.view(sid)
        if st != "ok" or view is None:
            continue
        evs.append({"e": cam.mode, "resolv": rec["files"]["resolv"], "nss": rec["files"]["nss"],
                    "netsvc": rec["files"]["netsvc"], "svc": rec["files"]["svc"], "ld": rec["env"]["localdomain"],
                    "ro": rec["env"]["res_options"],
                    "obs": {"flags": sorted(view["flags"]), "timeout": min(view["timeout"], 2 ** 31 - 1),
                            "tries": min(view["tries"], 2 ** 31 - 1), "ndots": min(view["ndots"], 2 ** 31 - 1),
                            "rotate": view["rotate"], "domains": view["domains"], "lookups": view["lookups"],
                            "sortlist": view["sortlist"],
                            "servers": [{"a": a, "u": u, "t": t, "i": i} for a, u, t, i in view["servers"]]}})
    return evs


def trace_validation(ctx, cams, stats, private):
    """impl -> spec: TLC (ConfigTrace.tla) must explain every recorded observation of the accepted scenarios; and
    must reject the same trace with one field flipped (self-test of the binding)."""
    per = 1200 if ctx.quick else 6000
    evs = []
    for cam in cams:
        if not private and cam.name.startswith(("nss", "svc")):
            continue
        evs.extend(trace_events(cam, ctx.seed, per // 3 if cam.name.startswith("num") else per))
    if not private:
        for e in evs:
            e["obs"]["lookups"] = "fb" if e["obs"]["lookups"] else e["obs"]["lookups"]
    path = os.path.join(ctx.out, "trace.ndjson")
    with open(path, "w") as f:
        for e in evs:
            f.write(json.dumps(e) + "\n")
    spec = os.path.join(ROOT, "specs", "Config", "ConfigTrace.tla")
    if private:
        r = vlib.tlc(spec, "ConfigTrace.cfg", workers=1, timeout=900, deadlock=False, env={"TRACE": path})
        ctx.cov["states"] += r.distinct
        if r.error and "Postcondition" not in r.out:
            raise vlib.MachineryError("ConfigTrace failed:\n%s" % r.out[-3000:])
        if r.rc != 0 and ctx.violations:
            ctx.notes["trace_validation"] = "not completed (event %d unexplained) on a tree that already violates" % max(0, r.distinct - 1)
            ctx.log("trace validation stopped at event %d (violations already recorded)" % max(0, r.distinct - 1))
            return
        if r.rc != 0:
            # the python comparator accepted something TLC does not explain: the binding itself is inconsistent
            k = max(0, r.distinct - 1)
            raise vlib.MachineryError("trace validation: comparator and ConfigTrace.tla disagree on event %d: %s\n%s" %
                                      (k, json.dumps(evs[k] if k < len(evs) else None)[:1500], r.out[-1500:]))
        stats["trace_events_validated"] = len(evs)
        ctx.log("trace validation: %d recorded observations explained by ConfigTrace.tla (%.1fs)" % (len(evs), r.wall))
    # corrupted-trace self-test: flip one field of one event of a short accepted trace
    small = evs[:60]
    k = B.h32(ctx.seed, "corrupt") % max(1, len(small))
    bad = json.loads(json.dumps(small))
    field = ("ndots", "tries", "rotate", "domains")[B.h32(ctx.seed, "corruptf") % 4]
    o = bad[k]["obs"]
    if field == "ndots":
        o["ndots"] = 9 if o["ndots"] != 9 else 8
    elif field == "tries":
        o["tries"] = o["tries"] + 1
    elif field == "rotate":
        o["rotate"] = not o["rotate"]
    else:
        o["domains"] = list(o["domains"]) + ["corrupt.example"]
    # tries / ndots may be covered by AnyPos or the 0..15 set: choose an event where the expectation is a singleton
    cpath = os.path.join(ctx.out, "trace-corrupt.ndjson")
    with open(cpath, "w") as f:
        for e in bad:
            f.write(json.dumps(e) + "\n")
    if private and small:
        extreme = any(c in B.EXTREME for c in small[k]["resolv"] + [small[k]["ro"]])
        r2 = vlib.tlc(spec, "ConfigTrace.cfg", workers=1, timeout=300, deadlock=False, env={"TRACE": cpath})
        rejected = r2.rc != 0 and "Postcondition" in r2.out
        stats["corrupted_trace_rejected"] = bool(rejected)
        if not rejected and not (extreme and field in ("ndots", "tries")):
            raise vlib.MachineryError("self-test: ConfigTrace.tla accepted a trace whose event %d has a flipped %s" % (k, field))
        ctx.log("corrupted-trace self-test: event %d, field %s flipped -> %s" % (k, field, "rejected" if rejected else "accepted (extreme class)"))


def run(ctx):
    exe = ctx.build_harness("cfg")
    stats = {"executed": 0, "accepted": 0, "skipped": 0, "twin_compared": 0, "violations": 0, "mismatches": 0,
             "isolation_runs": 0, "leak_zero_value": 0, "range": 0, "families": {}}

    # private /etc available?
    res, summ = B.run_harness(exe, [{"id": "probe", "etc": {}, "hostname": "probe.example", "ops": []}],
                              os.path.join(ctx.out, "probe"), nproc=1)
    private = bool(summ and summ[0].get("etc_private"))
    if not private:
        ctx.assumptions.append("no private mount namespace available: /etc/nsswitch.conf, netsvc.conf, svc.conf of the "
                               "sandbox are read as they are; nsswitch/netsvc/svc scenarios skipped, lookups not compared")
    ctx.notes["private_etc"] = private

    # num / numenv: the numeric extremes of ConfigNum.tla (port, tcpport, prefix length, ndots / timeout / attempts
    # numerals) on nameserver / sortlist / options lines and in RES_OPTIONS
    fams = [("resolv3", "ConfigLines_gen.cfg"), ("nss", "ConfigLines_nss.cfg"), ("svc", "ConfigLines_svc.cfg"),
            ("env", "ConfigLines_env.cfg"), ("num", "ConfigLines_num.cfg" if ctx.quick else "ConfigLines_num3.cfg"),
            ("numenv", "ConfigLines_numenv.cfg")]
    cams = []
    for name, cfg in fams:
        cams += run_family(ctx, exe, name, cfg, stats, private, workers=2 if name.startswith("num") else 8,
                           reinit_maxlen=2 if name in ("resolv3", "env", "num", "numenv") else None)
    if not ctx.quick:
        r = tlc_run(ctx, "Config/ConfigLines.tla", "ConfigLines_mc4.cfg", workers=8, timeout=1500)
        ctx.log("mc4: LineIndependent/InRange on %d specification states (%.0fs)" % (r.distinct, r.wall))
        cams += run_family(ctx, exe, "resolv4", "ConfigLines_gen4.cfg", stats, private, timeout=1500)
        cams += run_family(ctx, exe, "sim8", "ConfigLines_sim.cfg", stats, private, timeout=900, simulate=150, depth=14, workers=1)
    trace_validation(ctx, cams, stats, private)

    import c15_strings
    c15_strings.run(ctx, exe, stats, private)

    ctx.cov["evaluations"] = stats["executed"]
    ctx.cov["traces_validated_against_impl"] = stats["accepted"]
    ctx.cov["distinct_nontrivial"] = sum(f["scenarios"] for f in stats["families"].values())
    ctx.cov["rule"] = ("one scenario = one distinct abstract configuration printed by TLC (distinct by its tuple of line "
                       "classes per file + environment), executed once on the real library; accepted = effective "
                       "configuration allowed by the specification AND equal to the run of its junk-free twin, no "
                       "crash/leak/hang")
    ctx.notes["c15"] = stats
    ctx.level = "model_checking"
    ctx.assumptions.append("junk classes are bound to the concrete texts listed in harness/cfg/cfgbind.py; "
                           "interface 'lo' exists")
    ctx.log("C15 done: %s" % json.dumps({k: v for k, v in stats.items() if k != "families"}))
