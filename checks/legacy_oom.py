"""Allocation-failure dimension of the legacy reply parsers (C18 clause "what it returns ..." under C14's
quantifier "failing the n-th allocation only").  Used by checks/c18.py (signatures c18.oom.<parser>.<what>) and by
checks/c14.py through run_legacy_oom(ctx) (signatures c14.legacy.<parser>.<what>).

  1. TLC (specs/Legacy/LegacyOomGen.tla) enumerates the message family (every repetition-free answer of <= 3,
     thorough <= 4, records over a per-family alphabet: several records of the parser's type, alias chains,
     multi-string TXT) with the plan of sweeps OomCalls(fam) and checks the view invariants on it.
  2. harness/legacy ("O" lines): every planned call is repeated failing exactly the n-th allocation request made
     inside the call, n = 1, 2, ... until a run makes fewer than n requests; one ndjson line per sweep.
  3. TLC (LegacyTrace.tla, OomLabels) decides every recorded outcome: an error status with nothing returned, or
     exactly View(fn, mode, cap, msg); nothing left allocated after the matching free function; guards intact.
Python only moves data (format conversion, sharding, counting, label -> signature).
"""
import json
import os
import re
import time

import vlib
import c18 as L

CALL_RE = re.compile(r'\{"fn":"(\w+)","mode":"([\w-]+)","cap":\d+,"st":"(\w+)".*?"hit":(\d)')


def c14_sig(label):
    return "c14.legacy." + (label[4:] if label.startswith("oom.") else label)


def family(ctx):
    cfg = "LegacyOomGen_quick.cfg" if ctx.quick else "LegacyOomGen_thorough.cfg"
    r = ctx.model_check("Legacy/LegacyOomGen.tla", cfg, workers=4, timeout=600)
    if r.violation:
        raise vlib.MachineryError("LegacyOomGen: invariant %s is violated (model bug):\n%s" % (r.violation, r.out[-4000:]))
    vecs = L.parse_printed(r.out, "vec")
    if not vecs:
        raise vlib.MachineryError("LegacyOomGen printed no vectors:\n" + r.out[-3000:])
    vecs.sort(key=lambda v: (v["fam"], len(v["msg"]["an"]), L.canon(v["msg"])))
    return vecs, r


def selftest(ctx, exe, vecs):
    """Corrupted-trace self-test of the allocation-failure rule: one accepted NS sweep, three single corruptions of
    a faulted call (success with a truncated hostent / an allocation left / error status with a hostent);
    each must be rejected with the expected label."""
    st = [v for v in vecs if v["fam"] == "NS" and len(v["msg"]["an"]) == 3
          and all(r["type"] == "NS" for r in v["msg"]["an"])]
    if not st:
        raise vlib.MachineryError("legacy oom self-test: no message with three NS records in the family")
    vec = st[0]
    vp, raw, tr = (os.path.join(ctx.out, "oom-selftest." + x) for x in ("vec", "raw", "ndjson"))
    with open(vp, "w") as f:
        f.write(L.vector_text(1, vec))
    rc, out = L.run_harness(exe, vp, raw, ctx.seed, 120)
    if rc != 0 or not os.path.exists(raw):
        ctx.notes.setdefault("legacy_oom", {})["corrupted_trace_selftest"] = {"skipped": "harness rc=%d on the baseline" % rc}
        return
    L.add_src(raw, tr, {1: L.canon(vec["msg"])})
    lines = open(tr).read().splitlines()
    ev = json.loads(lines[0])
    free_run = [c for c in ev["calls"] if c["hit"] == 0][0]
    k = max(i for i, c in enumerate(ev["calls"]) if c["hit"] == 1)       # the last faulted call

    def partial(c):
        c["st"] = "SUCCESS"
        c["host"] = dict(free_run["host"], aliases=free_run["host"]["aliases"][:1])

    def leak(c):
        c["leak"] = 1

    def err_with_output(c):
        c["host"] = dict(free_run["host"])

    want = [("partial", partial, "oom.ns.success_with_partial_result"), ("leak", leak, "oom.ns.leak_after_free.1_block"),
            ("error_with_output", err_with_output, "oom.ns.error_status_with_output.")]
    # one file: the recorded sweep (line 1), the three corrupted copies (lines 2-4), the rest (end event)
    with open(tr, "w") as f:
        f.write(lines[0] + "\n")
        for _, fn, _ in want:
            ev2 = json.loads(lines[0])
            fn(ev2["calls"][k])
            f.write(json.dumps(ev2, separators=(",", ":")) + "\n")
        for l in lines[1:]:
            f.write(l + "\n")
    devs, _ = L.validate(tr, len(lines) + len(want))
    got = {d["line"]: sorted(d["labels"]) for d in devs}
    base = set(got.get(1, [])) | set(x for i in range(len(want) + 2, len(lines) + len(want) + 1) for x in got.get(i, []))
    if base:
        # the implementation under test already deviates on this sweep (mutant run): nothing to corrupt
        ctx.notes.setdefault("legacy_oom", {})["corrupted_trace_selftest"] = {
            "skipped": "baseline sweep not accepted", "labels": sorted(base)}
        return
    res = {name: got.get(i + 2, []) for i, (name, _, _) in enumerate(want)}
    ctx.notes.setdefault("legacy_oom", {})["corrupted_trace_selftest"] = res
    for i, (name, _, lab) in enumerate(want):
        if not any(x.startswith(lab) for x in got.get(i + 2, [])):
            raise vlib.MachineryError("legacy oom self-test: LegacyTrace accepted a corrupted sweep (%s): %s" % (name, res))


def run(ctx, exe, sigmap, stride=1):
    """The whole dimension; returns the statistics (also stored in ctx.notes["legacy_oom"])."""
    t0 = time.time()
    vecs, r = family(ctx)
    allvecs = vecs
    if stride > 1:                        # seeded stride over the messages (every family keeps its share)
        vecs = [v for i, v in enumerate(vecs) if (i + ctx.seed) % stride == 0]
    camp = L.Campaign(ctx, exe, "oom")
    camp.sigmap = sigmap
    for i, v in enumerate(vecs):
        camp.add(i + 1, v)
    camp.run(timeout=1500)
    # statistics from the recorded lines (plumbing: counting only)
    per = {}
    statuses = {}
    sweeps = faults = 0
    for k in range(L.NSHARD):
        tr = os.path.join(ctx.out, "oom.%d.ndjson" % k)
        if not os.path.exists(tr):
            continue
        with open(tr) as f:
            for line in f:
                if '"mut":"oom"' not in line[:60]:
                    continue
                sweeps += 1
                nf = 0
                fn = None
                for m in CALL_RE.finditer(line):
                    fn = m.group(1)
                    if m.group(4) == "1":
                        nf += 1
                        sd = statuses.setdefault(fn, {})
                        sd[m.group(3)] = sd.get(m.group(3), 0) + 1
                e = per.setdefault(fn, {"sweeps": 0, "fault_runs": 0, "max_allocations": 0})
                e["sweeps"] += 1
                e["fault_runs"] += nf
                e["max_allocations"] = max(e["max_allocations"], nf)
                faults += nf
    sigs = L.report_deviations(ctx, camp, exe, sigmap=sigmap)
    stats = {"messages": len(vecs), "sweeps": sweeps, "fault_runs": faults, "per_parser": per,
             "status_of_faulted_calls": statuses, "deviation_signatures": sigs, "wall_s": round(time.time() - t0, 1),
             "trace_coverage_shard0": {k: list(v) for k, v in camp.coverage.items()}}
    ctx.notes.setdefault("legacy_oom", {}).update(stats)
    # vacuity: every parser was swept, faults were injected, and (unless something deviates) failures were reported
    want_fns = {"a", "aaaa", "ns", "ptr", "mx", "srv", "txt", "txt_ext", "soa", "caa", "naptr", "uri"}
    if set(per) != want_fns or any(e["fault_runs"] == 0 for e in per.values()):
        raise vlib.MachineryError("legacy oom: not every parser was swept: %s" % per)
    if not camp.devs and any("ENOMEM" not in statuses.get(fn, {}) for fn in want_fns):
        raise vlib.MachineryError("legacy oom: a parser never reported ENOMEM under fault injection: %s" % statuses)
    selftest(ctx, exe, allvecs)
    ctx.cov["traces_validated_against_impl"] += camp.accepted_lines
    ctx.cov["evaluations"] += faults + sweeps
    ctx.cov["distinct_nontrivial"] += faults
    ctx.log("legacy parsers under single allocation failure: %d messages (TLC family), %d sweeps (12 entry points, all "
            "output modes), %d fault runs (every allocation index of every call), %d deviating sweeps (%.1fs)" %
            (len(vecs), sweeps, faults, len(camp.devs), time.time() - t0))
    return stats


def run_legacy_oom(ctx):
    """Entry point for checks/c14.py: the legacy reply parsers under C14's quantifier."""
    exe = ctx.build_harness("legacy")           # honours VERIF_REPO (alt builds) like every other harness
    if getattr(ctx, "replay", None):
        try:
            rp = json.load(open(ctx.replay))
        except (OSError, ValueError):
            return None
        if "vector" not in rp:
            return None                          # not one of ours
        labels = L.replay_vector(ctx, exe, rp["vector"], {}, "replay-legacy", seed=rp.get("seed"))
        for lab in sorted(labels):
            ctx.violation(c14_sig(lab), "replay of %s reproduces %s" % (ctx.replay, c14_sig(lab)), replay_path=ctx.replay)
        return None
    stats = run(ctx, exe, c14_sig)
    ctx.cov["rule"] = ctx.cov.get("rule", "") + (
        "; legacy reply parsers: one run per (message of LegacyOomGen.tla, planned call, allocation index n of the call) "
        "with exactly the n-th allocation request of the call failing, every n; non-trivial = the fault was injected")
    ctx.assumptions.append(
        "legacy reply parsers: only allocation requests made inside the ares_parse_*_reply call are counted and failed "
        "(building the message, the reference ares_dns_parse and the free functions are harness plumbing); the outcome "
        "of every fault run is decided by specs/Legacy/LegacyTrace.tla (OomLabels) against LegacyView.tla")
    return stats
