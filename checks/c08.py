"""C08 - the query cache only replays fresh, matching, successful answers (QCache facet)."""
import mutators
import simlib

KEEP = {"init", "call", "ret", "adv", "sk", "srv", "cbb", "crash"}
FACETS = [("QCacheTrace.tla", "QCacheTrace.cfg", KEEP, {"send", "recv"})]


def run(ctx):
    import vlib
    for cfgname in ("QCacheModel.cfg", "QCacheModel0.cfg"):
        r = ctx.model_check("Resolver/QCacheModel.tla", cfgname, workers=8, timeout=600)
        if r.violation:
            raise vlib.MachineryError("QCacheModel.tla violates %s" % r.violation)
    # requests that differ only in type (incl. types without a mnemonic) or class
    types = {"module": "Gen_C08.tla", "cfg": "Gen_C08_types.cfg", "name": "types"}
    # the same key cached more than once (several outstanding requests, all answered), then flush / expiry
    # lifetimes more than 2^31 s apart
    huge = {"module": "GenCacheHuge.tla", "cfg": "GenCacheHuge.cfg", "name": "huge"}
    dup = {"module": "GenCacheDup.tla", "cfg": "GenCacheDup.cfg", "name": "dupkey"}
    if ctx.quick:
        gens = [{"module": "Gen_C08.tla", "cfg": "Gen_C08_quick.cfg", "name": "bfs"}, types, dup, huge]
    else:
        gens = [{"module": "Gen_C08.tla", "cfg": "Gen_C08_thorough.cfg", "name": "bfs"},
                {"module": "Gen_C08.tla", "cfg": "Gen_C08_sim.cfg", "name": "sim", "simulate": 2500, "depth": 16}, types, dup, huge]
    simlib.engine_check(ctx, gens, FACETS, labels=("c08.",), selftests=mutators.QCACHE)
