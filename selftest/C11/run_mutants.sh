#!/bin/bash
# usage: selftest/C11/run_mutants.sh C11|C07_THR [patch-name ...]
# Applies each selftest/<ID>/*.patch to a scratch copy of /repo, runs the quick check with
# VERIF_REPO pointing at it and prints CAUGHT (exit 1 + VIOLATION line) or MISSED.
ID=$1; shift
ROOT=$(cd "$(dirname "$0")/../.." && pwd)
SCR=/tmp/thr/mut_$ID
export VERIF_BUILD=$ROOT/build/alt-thr-$ID
PATCHES="$@"
[ -z "$PATCHES" ] && PATCHES=$(cd $ROOT/selftest/$ID && ls *.patch | sed 's/\.patch$//')
for p in $PATCHES; do
  f=$ROOT/selftest/$ID/$p.patch; [ -f "$f" ] || f=$ROOT/selftest/$ID/$p
  # fresh build directory per mutant: rsync restores original files with their old mtimes, so an
  # incremental build would keep the previous mutant's objects
  rm -rf $SCR $ROOT/build/alt-thr-$ID-*; mkdir -p $SCR
  rsync -a --exclude _build --exclude .git /repo/ $SCR/repo/
  (cd $SCR/repo && patch -p1 -s < $f) || { echo "$ID $p: PATCH-FAILED"; continue; }
  t0=$(date +%s)
  VERIF_REPO=$SCR/repo $ROOT/check $ID --tier quick > $SCR/out.txt 2>&1
  rc=$?
  t1=$(date +%s)
  sigs=$(grep '^--- violation:' $SCR/out.txt | sed 's/^--- violation: //' | sort -u | head -6 | tr '\n' ' ')
  if [ $rc -eq 1 ] && grep -q '^VIOLATION' $SCR/out.txt; then echo "$ID $p: CAUGHT rc=$rc $((t1-t0))s  $sigs";
  else echo "$ID $p: NOT-CAUGHT rc=$rc $((t1-t0))s"; tail -5 $SCR/out.txt; fi
  cp $SCR/out.txt $ROOT/build/out/mutant_${ID}_$p.txt 2>/dev/null
  rm -f $ROOT/replays/${ID}-*.json
done
rm -rf $SCR $ROOT/build/alt-thr-$ID-*
