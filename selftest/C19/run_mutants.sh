#!/bin/bash
# Sensitivity self-test for C19: applies each mutant patch (one at a time) to a scratch copy of the
# c-ares tree OUTSIDE /repo and /verif, runs the quick check against it and records whether a
# VIOLATION was reported.  usage: selftest/C19/run_mutants.sh [patch ...]   (default: all)
# Results: selftest/C19/results.txt.  The scratch copy and the alternate build are deleted at the end.
ROOT=$(cd "$(dirname "$0")/../.." && pwd)
SCR=${C19_SCRATCH:-/tmp/c19agent}
export VERIF_BUILD=$ROOT/build/alt-c19
mkdir -p "$SCR"
rsync -a --delete --exclude _build --exclude .git "${VERIF_REPO_ORIG:-/repo}/" "$SCR/repo/"
PATCHES="$@"
[ -z "$PATCHES" ] && PATCHES=$(ls "$ROOT"/selftest/C19/*.patch)
OUT=$ROOT/selftest/C19/results.txt
[ $# -eq 0 ] && : > "$OUT"
for p in $PATCHES; do
  name=$(basename "$p" .patch)
  rsync -a --delete --exclude _build --exclude .git "${VERIF_REPO_ORIG:-/repo}/" "$SCR/repo/"
  (cd "$SCR/repo" && patch -p1 -s < "$p") || { echo "$name: PATCH FAILED" >> "$OUT"; continue; }
  # rsync restores the old mtimes: make sure every file any mutant touches is recompiled
  for f in $(grep -h '^+++ b/' "$ROOT"/selftest/C19/*.patch | sed 's/^+++ b\///' | sort -u); do touch "$SCR/repo/$f"; done
  t0=$(date +%s)
  VERIF_REPO=$SCR/repo timeout 1800 "$ROOT/check" C19 --tier quick > "$SCR/$name.log" 2>&1
  rc=$?
  t1=$(date +%s)
  sigs=$(grep '^--- violation: ' "$SCR/$name.log" | sed 's/^--- violation: //' | head -4 | tr '\n' ';')
  nv=$(grep -c '^VIOLATION ' "$SCR/$name.log")
  if [ $rc -eq 1 ] && [ "$nv" -gt 0 ]; then verdict=CAUGHT; elif [ $rc -eq 0 ]; then verdict=MISSED; else verdict="MACHINERY(rc=$rc)"; fi
  echo "$name: $verdict exit=$rc violations=$nv wall=$((t1-t0))s signatures: $sigs" >> "$OUT"
  tail -3 "$SCR/$name.log" | cut -c1-300
  
done
rm -rf "$SCR/repo" "$ROOT"/build/alt-c19-*
cat "$OUT"
