#include <ares.h>
#include <stdio.h>
int main(void){ unsigned char m[]={3,'a','b','c'}; long enc=0; ares_library_init(ARES_LIB_INIT_ALL);
 int rc=ares_expand_string(m,m,sizeof m,NULL,&enc); printf("rc=%d enc=%ld\n",rc,enc); ares_library_cleanup(); return 0; }
