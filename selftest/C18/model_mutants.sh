#!/bin/bash
# Vacuity self-test of the view invariants (LegacyGen.tla): each deliberately wrong LegacyView must be
# rejected by TLC.  Works on copies in a temp dir.   usage: selftest/C18/model_mutants.sh
ROOT=$(cd "$(dirname "$0")/../.." && pwd)
W=$(mktemp -d /tmp/c18-model.XXXXXX)
one() {  # name, old, new, expected invariant
  rm -rf $W/w && mkdir -p $W/w && cp $ROOT/specs/Legacy/LegacyView.tla $ROOT/specs/Legacy/LegacyGen.tla $W/w/
  sed 's/Emit = TRUE/Emit = FALSE/' $ROOT/specs/Legacy/LegacyGen_quick.cfg > $W/w/q.cfg
  python3 - "$W/w/LegacyView.tla" "$2" "$3" <<'PY'
import sys
f, old, new = sys.argv[1:4]
s = open(f).read()
assert old in s, "pattern not found: " + old
open(f, "w").write(s.replace(old, new, 1))
PY
  got=$(cd $W/w && timeout 300 java -XX:+UseParallelGC -Xmx4g -cp /opt/veriftools/tla/tla2tools.jar:/opt/veriftools/tla/CommunityModules-deps.jar \
        tlc2.TLC -metadir $W/meta -workers 4 -config q.cfg LegacyGen.tla 2>&1 | grep -oE 'Invariant [A-Za-z]+ is violated' | head -1)
  rm -rf $W/meta
  if echo "$got" | grep -q "$4"; then echo "$1: caught ($got)"; else echo "$1: MISSED (expected $4, got '$got')"; fail=1; fi
}
fail=0
one clip-plus-one 'Clip(s, n) == SubSeq(s, 1, MinI(Len(s), n))' 'Clip(s, n) == SubSeq(s, 1, MinI(Len(s), n + 1))' InvCapacity
one match-additional 'Match(fn, m) == SelectSeq(m.an,' 'Match(fn, m) == SelectSeq(m.an \o m.ar,' InvExactlyInOrder
one ttl-no-min 'AddrTTL(r, m)  == MinI(r.ttl, MinCnameTTL(m))' 'AddrTTL(r, m)  == r.ttl' InvTtlMin
one list-always-success 'IF Match(fn, m) = <<>> THEN "ENODATA" ELSE "SUCCESS",
   items |-> ListItems(fn, m),' '"SUCCESS",
   items |-> ListItems(fn, m),' InvStatus
one txt-first-chunk 'IF ext THEN [txt |-> r.chunks[j]' 'IF ext THEN [txt |-> r.chunks[1]' InvTxt
one hname-first-target 'ELSE IF RegularChain(m) THEN {c[Len(c)].t}' 'ELSE IF RegularChain(m) THEN {c[1].t}' InvHost
one soa-last 'IF s = <<>> THEN <<>> ELSE <<SoaItem(s[1])>>' 'IF s = <<>> THEN <<>> ELSE <<SoaItem(s[Len(s)])>>' InvSoa
one alias-from-authority 'Cnames(m) == SelectSeq(m.an, LAMBDA r : r.type = "CNAME" /\ r.cls = CIN)' 'Cnames(m) == SelectSeq(m.an \o m.ns, LAMBDA r : r.type = "CNAME" /\ r.cls = CIN)' InvAnswerOnly
rm -rf $W
exit $fail
