#!/usr/bin/env python3
"""Self-test of the confirmation rule of checks/c18.py (report_deviations): which labels of a first run are
reported given what the re-run of their vectors shows.  The harness / TLC re-run is replaced by canned results,
so this only exercises the decision (no build, < 1 s).   usage: python3 selftest/C18/confirm_rule_selftest.py

  a  label repeats for the same vector (other wrong values)          -> reported
  b  label does not repeat, nothing else to report                   -> machinery error, nothing reported
  c  label does not repeat, another label of another vector repeats  -> only the other one reported
  d  label repeats only for a *different* vector of the re-run       -> not confirmed (per vector)
  e  re-run of the vector is aborted by a sanitizer                  -> the sanitizer label is reported instead
  f  sanitizer label in the first run, clean re-run                  -> the sanitizer label is reported anyway
  g  known-finding labels                                            -> never re-run, reported as known
"""
import os
import sys

ROOT = os.path.dirname(os.path.dirname(os.path.dirname(os.path.abspath(__file__))))
sys.path[:0] = [os.path.join(ROOT, "tools"), os.path.join(ROOT, "checks")]
import vlib          # noqa: E402
import c18 as L      # noqa: E402

ASAN = "sanitizer.AddressSanitizer.heap-buffer-overflow.ares_addrinfo2hostent"


class StubCtx:
    pid, seed = "C18", 1

    def __init__(self):
        self.kf = {"known": [{"id": "KF", "property": "C18", "signature": r"^mx\.status\.known$", "what": "known"}]}
        self.violations, self.known, self.notes, self.logged = [], [], {}, []

    def log(self, *a):
        self.logged.append(" ".join(str(x) for x in a))

    def violation(self, signature, text, replay_content=None, replay_path=None):
        import re
        if any(re.search(k["signature"], signature) for k in self.kf["known"]):
            self.known.append(signature)
            return False
        self.violations.append((signature, None, text))
        return True


def dev(vid, labels, got="x"):
    return {"k": "dev", "line": 1, "id": vid, "labels": list(labels),
            "detail": [{"fn": "a", "labels": list(labels), "got": got}]}


def case(first, rerun, reports=()):
    """first / rerun: [(vector id, labels)] -> (sorted reported signatures, error text or None, ctx)"""
    ctx = StubCtx()
    camp = L.Campaign(ctx, "/nonexistent", "t")
    for vid, _ in first:
        camp.texts[vid] = "V %d\nE\n" % vid
    camp.devs = [("first.ndjson", dev(vid, labs, got="first")) for vid, labs in first]
    asked = []

    def fake(ctx_, exe, vectors, srcs, tag, seed=None):
        asked.extend(i for i, _ in vectors)
        by_id = {}
        for vid, labs in rerun:
            by_id.setdefault(vid, set()).update(labs)
        return by_id, [("rerun.ndjson", dev(vid, labs, got="rerun")) for vid, labs in rerun], list(reports)

    real, L.replay_vectors = L.replay_vectors, fake
    try:
        L.report_deviations(ctx, camp, "/nonexistent")
        err = None
    except vlib.MachineryError as e:
        err = str(e)
    finally:
        L.replay_vectors = real
    ctx.asked = sorted(asked)
    return sorted(v[0] for v in ctx.violations), err, ctx


def main():
    bad = []

    def expect(name, got, want):
        if got != want:
            bad.append("%s: got %r, want %r" % (name, got, want))

    rep, err, _ = case([(7, ["a.host.addrs"])], [(7, ["a.host.addrs"])])
    expect("a", (rep, err), (["a.host.addrs"], None))

    rep, err, _ = case([(7, ["a.host.addrs"])], [])
    expect("b.reported", rep, [])
    expect("b.error", bool(err and "did not reproduce" in err), True)

    rep, err, ctx = case([(7, ["a.host.addrs"]), (9, ["aaaa.items.count"])], [(9, ["aaaa.items.count"])])
    expect("c", (rep, err), (["aaaa.items.count"], None))
    expect("c.note", sorted(ctx.notes.get("unconfirmed_labels", {})), ["a.host.addrs"])

    rep, err, _ = case([(7, ["a.host.addrs"]), (9, ["aaaa.items.count"])],
                       [(9, ["aaaa.items.count", "a.host.addrs"])])
    expect("d", (rep, err), (["aaaa.items.count"], None))

    rep, err, ctx = case([(7, ["a.host.addrs"])], [(7, [ASAN])], reports=[(ASAN[len("sanitizer."):], "report", 7)])
    expect("e", (rep, err), ([ASAN], None))
    expect("e.text", "report" in ctx.violations[0][2], True)

    rep, err, _ = case([(7, [ASAN])], [])
    expect("f", (rep, err), ([ASAN], None))

    rep, err, ctx = case([(7, ["mx.status.known"])], [])
    expect("g", (rep, err, ctx.known, ctx.asked), ([], None, ["mx.status.known"], []))

    for b in bad:
        print("FAIL", b)
    print("confirm-rule self-test: %s" % ("FAILED" if bad else "ok (7 cases)"))
    return 1 if bad else 0


sys.exit(main())
