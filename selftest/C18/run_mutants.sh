#!/bin/bash
# Sensitivity self-test for C18: apply each mutant to a scratch copy of /repo and require that
# `./check C18 --tier quick` exits 1 with a VIOLATION line.   usage: selftest/C18/run_mutants.sh [patch...]
# Scratch copy: /tmp/c18-selftest/repo (deleted at the end), build dir: /verif/build/alt-c18-asan (deleted at the end).
set -u
ROOT=$(cd "$(dirname "$0")/../.." && pwd)
S=/tmp/c18-selftest
mkdir -p $S/log
rsync -a --delete --exclude _build /repo/ $S/repo/
PATCHES=("$@")
[ ${#PATCHES[@]} -eq 0 ] && PATCHES=($ROOT/selftest/C18/*.patch)
cp $ROOT/evidence/C18.json $S/evidence.keep 2>/dev/null
before=$(ls $ROOT/replays | grep '^C18-')
for p in "${PATCHES[@]}"; do
  p=$(readlink -f $p); n=$(basename $p .patch)
  (cd $S/repo && git checkout -q -- . && git apply $p) || { echo "$n: APPLY-FAILED"; continue; }
  t0=$(date +%s)
  (cd $ROOT && VERIF_REPO=$S/repo VERIF_BUILD=$ROOT/build/alt-c18 timeout 1200 ./check C18 --tier quick) > $S/log/$n.log 2>&1
  rc=$?
  sigs=$(grep '^--- violation:' $S/log/$n.log | sed 's/--- violation: //' | sort -u | tr '\n' ' ')
  echo "$n: rc=$rc violations=$(grep -c '^VIOLATION' $S/log/$n.log) $(( $(date +%s) - t0 ))s :: $sigs"
done
# remove replay files written by the mutant runs, restore the evidence of the unchanged tree
for f in $(ls $ROOT/replays | grep '^C18-'); do echo "$before" | grep -qx "$f" || rm -f $ROOT/replays/$f; done
cp $S/evidence.keep $ROOT/evidence/C18.json 2>/dev/null
rm -rf $S/repo $ROOT/build/alt-c18-asan
