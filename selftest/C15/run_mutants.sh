#!/bin/bash
# Sensitivity self-test for C15 / C16: apply every selftest/<ID>/*.patch to a scratch copy of /repo (one at a
# time), run the quick check against it and require exit 1 with a VIOLATION line.
# usage: selftest/C15/run_mutants.sh C15|C16 [patch-name-substring]
ID=${1:-C15}
ONLY=${2:-}
ROOT=$(cd "$(dirname "$0")/../.." && pwd)
TMP=${TMPDIR:-/tmp}/cfg-mutants-$$
mkdir -p "$TMP"
rsync -a --exclude _build /repo/ "$TMP/repo/"
rc_all=0
for p in "$ROOT"/selftest/$ID/*.patch; do
  n=$(basename "$p" .patch)
  [ -n "$ONLY" ] && [[ "$n" != *"$ONLY"* ]] && continue
  # patch / patch -R give the touched files a fresh mtime, so ninja recompiles them (rsync -a would restore old mtimes)
  if ! (cd "$TMP/repo" && patch -p1 -s < "$p"); then echo "$ID $n: PATCH DOES NOT APPLY"; rc_all=1; continue; fi
  before=$(ls "$ROOT/replays" | sort)
  VERIF_REPO="$TMP/repo" VERIF_BUILD="$ROOT/build/alt-cfgmut" "$ROOT/check" $ID --tier quick > "$TMP/$n.log" 2>&1
  rc=$?
  sig=$(grep '^--- violation:' "$TMP/$n.log" | head -3 | cut -c1-200 | tr '\n' '|')
  nv=$(grep -c '^VIOLATION' "$TMP/$n.log")
  if [ $rc -eq 1 ] && [ "$nv" -gt 0 ]; then echo "$ID $n: CAUGHT ($nv violations) $sig"; else echo "$ID $n: MISSED rc=$rc"; rc_all=1; tail -5 "$TMP/$n.log"; fi
  (cd "$TMP/repo" && patch -R -p1 -s < "$p")
  # remove the replay files this mutant run created
  comm -13 <(echo "$before") <(ls "$ROOT/replays" | sort) | grep -v "^kf-" | while read f; do rm -f "$ROOT/replays/$f"; done
done
rm -rf "$TMP" "$ROOT/build/alt-cfgmut-asan"
exit $rc_all
