#!/bin/bash
# Build /repo/_build (guard OFF, tests on) and run the pinned suite; print gtest summary.
set -e
cmake -G Ninja -S /repo -B /repo/_build -DCARES_BUILD_TESTS=ON > /dev/null
cmake --build /repo/_build > /tmp/baseline_build.log 2>&1 || { tail -30 /tmp/baseline_build.log; exit 2; }
(ctest --test-dir /repo/_build -j8 --timeout 900 > /tmp/baseline_ctest.log 2>&1 || true)
grep -E "tests passed|tests failed|Passed|Failed" /tmp/baseline_ctest.log | tail -5
L=/repo/_build/Testing/Temporary/LastTest.log
echo "gtest OK: $(grep -c '^\[       OK \]' $L)  FAILED(non-Live): $(grep '^\[  FAILED  \]' $L | grep -v Live | grep -vc 'tests, listed')"
grep '^\[  FAILED  \]' $L | grep -v Live | grep -v "tests, listed" | sort -u | head
