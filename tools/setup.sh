#!/bin/bash
# One-time setup after a fresh restore (offline): configure+build the sanitizer
# builds of /repo with hooks on, and syntax-check every specification.
set -e
cd "$(dirname "$0")/.."
tools/build_repo.sh asan >/dev/null
tools/build_repo.sh tsan >/dev/null
tools/build_repo.sh plain >/dev/null
fail=0
for f in $(find specs -name '*.tla' | sort); do
  d=$(dirname "$f"); b=$(basename "$f")
  (cd "$d" && tla-sany "$b" > /tmp/sany.$$ 2>&1) || { echo "SANY FAILED: $f"; cat /tmp/sany.$$; fail=1; }
done
rm -f /tmp/sany.$$
exit $fail
