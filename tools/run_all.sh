#!/bin/bash
# Runs every registered quick (or $1=thorough) command once and prints exit code + wall time.
cd "$(dirname "$0")/.."
TIER=${1:-quick}
python3 - "$TIER" <<'PY'
import json,os,subprocess,sys,time
tier=sys.argv[1]
only=[x for x in os.environ.get('VERIF_ONLY','').split(',') if x]     # optional: VERIF_ONLY=C01,C05 runs just these
m=json.load(open('MANIFEST.json'))
for c in m['checks']:
    if only and c['property_id'] not in only: continue
    cmd=c['quick_cmd'] if tier=='quick' else c.get('thorough_cmd',c['quick_cmd'])
    t=time.time()
    p=subprocess.run(cmd,shell=True,stdout=subprocess.PIPE,stderr=subprocess.STDOUT)
    out=p.stdout.decode('utf-8','replace')
    kf=out.count('KNOWN-FINDING')
    print("%-4s exit=%d  %6.1fs  known-findings=%d  %s" % (c['property_id'],p.returncode,time.time()-t,kf,"VIOLATION" if "VIOLATION" in out else ""),flush=True)
    if p.returncode!=0: print(out[-1500:])
PY
