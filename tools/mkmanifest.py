#!/usr/bin/env python3
"""Regenerates /verif/MANIFEST.json from the table below (keeps it valid at all times)."""
import json, os, subprocess
ROOT = os.path.dirname(os.path.dirname(os.path.abspath(__file__)))

ENGINE = "TLC explores/generates environment histories (EnvGen.tla); cares_sim replays them against an ASan+UBSan build of the current tree through virtual sockets/time; TLC validates every recorded trace against the facet specification"
CHECKS = {
 "C01": dict(level="model_checking", tech="TLA+ facet spec Lifecycle.tla (TLC exhaustive) + TLC-generated histories replayed on the real library + TLC trace validation",
             text="The request life-cycle contract (exactly one callback, none after destroy, cancel/destroy complete what was pending, legal nesting) is an explicit TLA+ spec whose invariants TLC checks exhaustively for 3 requests / nesting 5; every environment history up to the bound (entry points x nested new request/cancel x reply kinds x timeouts x socket faults x cancel, destroy at every point) is executed against the real code under ASan/UBSan/LSan and every recorded trace must be accepted by the trace specification.",
             note="Trusted: TLC, the harness's event recording, sanitizers as observers of memory clauses. Nested calls limited to those C01 names; bounded history length (quick 4 steps, thorough deeper by simulation).", ref="4/C01"),
 "C10": dict(level="model_checking", tech="TLA+ facet spec Sockets.tla (TLC exhaustive) + TLC-generated histories replayed on the real library + TLC trace validation",
             text="The socket protocol (close exactly once, nothing after close, none survives destroy, per-socket UDP query limit, watch-before-needed, stop-exactly-once-iff-watched, ares_fds/ares_getsock exactness) is an explicit TLA+ spec; the virtual socket layer's call log of every generated history (UDP, TCP, TFO, stay-open, udp_max_queries, failures injected at socket/connect/send/recv) is validated by TLC against it.",
             note="Trusted: TLC, virtual socket layer (never reuses descriptors), harness recording. ares_getsock checked up to its 16-socket limit.", ref="4/C10"),
 "C06": dict(level="model_checking", tech="TLA+ facet spec Retry.tla + TLC-generated histories replayed on the real library (virtual time) + TLC trace validation",
             text="The retry policy (budget servers x tries plus the protocol-mandated resends, requeue on error rcodes / timeouts / connection failures, EDNS downgrade and TCP upgrade outside the budget, per-attempt wait between the learned/configured base timeout and the configured maximum, definite completion status) is an explicit TLA+ spec including the latency-bucket base-timeout computation; every recorded transmission, server-state notification, completion and ares_timeout() value of every generated history is validated by TLC against it; UBSan observes the arithmetic clause.",
             note="Trusted: TLC, harness recording, virtual clock hook. Scope: send/query entry points; histories with connection-open failures, partial TCP writes, several packets per processing call or multi-server removal are judged only up to that point (counted in evidence).", ref="4/C06"),
 "C07": dict(level="model_checking", tech="TLA+ facet spec Retry.tla (deadline intervals, hint soundness, overdue processing) + TLC-generated histories with virtual time + TLC trace validation; event-thread half: EvLoop.tla/Threads.tla (TLC safety + liveness) + real event thread on all backends at TLC-named phases, phase/sync traces validated by TLC (ThreadsTrace.tla)",
             text="Single-threaded half: after every outermost API call the value of ares_timeout() (with and without a caller maximum) is checked against the deadline interval the spec derives for every in-flight query, and every processing call at or after a deadline must retry or fail the query; histories enumerated by TLC over arrival times, retries and several outstanding deadlines. Event-thread half: the event loop as coded (when the wake pipe is written, how the sleep is computed) is modelled in EvLoop.tla and must satisfy NoOutwait and pending ~> done under TLC; on the real library every backend x connection-reuse situation x arrival phase (request issued while the loop computes its timeout / waits / is woken / processes, and with an already overdue deadline) is run with a silent server: the request must complete within its retry budget and the recorded phase trace must satisfy ThreadsTrace.tla (planned sleep never beyond the earliest pending deadline).",
             note="Trusted: TLC, harness, virtual clock (single-threaded half); wall clock with a 100 ms tolerance and loopback sockets (event-thread half, epoll/poll/select only). Two defects found by the event-thread half were repaired (known_findings.d/C07_THR.json, fixed).", ref="4/C07"),
 "C09": dict(level="model_checking", tech="TLA+ facet spec Retry.tla (server health, selection, probes, list edits) + TLC-generated histories + TLC trace validation",
             text="Server selection (fresh attempts go to the first / a random member of the least-failed class, success restores, failure/timeout demotes, probe copies only to failed servers past their retry delay and never instead of the user's query, list edits keep health of surviving servers and re-order) is part of the explicit TLA+ spec; destination of every transmission and the public server-state callback stream of every generated history are validated by TLC.",
             note="Trusted: TLC, harness. Random draws are existential (a legal draw must exist).", ref="4/C09"),
 "C05": dict(level="model_checking", tech="TLA+ facet spec Accept.tla + TLC-generated forged/stale packet histories replayed on the real library + TLC trace validation",
             text="Authenticity of a response (arrived on the query's current connection, from the server's address, current id, exact question with the 0x20 case rule, well-formed echoing cookie) is defined in an explicit TLA+ spec; every datum delivered to a callback (each reply carries a unique marker) and every server-success credit in every generated history (wrong id/name/type/case/source address/cookie, late replies to earlier transmissions, duplicates, UDP/TCP, 0x20, EDNS, IPv6) must trace back to a packet that was authentic when read.",
             note="Trusted: TLC, harness markers and recording. One genuine deviation of the pinned tree is listed in known_findings.json (late reply on the previous connection accepted). Cookie state-machine clauses are decided by C17's facet.", ref="4/C05"),
 "C08": dict(level="model_checking", tech="TLA+ facet spec QCache.tla + TLC-generated request/response/time/reconfiguration histories on the real library (virtual time) + TLC trace validation",
             text="What may be replayed from the cache (key = opcode/RD/CD/type/class/name case-insensitively without trailing dot; NOERROR/NXDOMAIN only, never TC; lifetime = min(max, min TTL or SOA minimum); nothing when max = 0; empty after server-set change or reinit) and the TTL-decrement rule are an explicit TLA+ spec; every request answered without transmission in every generated history must be explained by it, with every TTL seen through the record API and the legacy buffer equal to original minus whole seconds cached.",
             note="Trusted: TLC, harness, virtual clock. Early eviction is allowed (the property bounds lateness only). addrinfo TTLs are covered through the record API getter they read.", ref="4/C08"),
 "C17": dict(level="model_checking", tech="TLA+ facet spec Cookie.tla (RFC 7873 client machine) + TLC-generated server-behaviour/time/source-address histories on the real library + TLC trace validation",
             text="The per-server cookie state machine (client cookie constant per server and source address until rotation, latest server cookie echoed, never over TCP, cookie-less replies ignored while SUPPORTED until 120 s regression, at most three BADCOOKIE resends then TCP, unsupported servers used without cookie for 120 s) is an explicit TLA+ spec; the COOKIE option of every transmitted frame and the delivery of every reply of every generated history (all server behaviours, source changes, advances across 120 s / 1 day including whole-second instants, IPv4 and IPv6) are validated by TLC.",
             note="Trusted: TLC, harness frame decoding (uses the library's own parser for plumbing), virtual clock and random hooks.", ref="4/C17"),
 "C12": dict(level="model_checking", tech="TLA+ facet spec Search.tla (candidate list per resolv.conf(5) + walk rule) + TLC-enumerated name/ndots/domain-list/flag/outcome histories on the real library + TLC trace validation",
             text="The candidate list (as-is first iff dots >= ndots, domains in order, root domain, trailing dot, NOSEARCH) and the walk (continue only after no-data/name-error, or server-failure/refused for a single label; stop at data or hard error; final no-data vs last status) are an explicit TLA+ spec; the sequence of question names the virtual server sees and the final status of every generated history (ares_search, legacy search, getaddrinfo A / A+AAAA, gethostbyname; configuration through options and through resolv.conf) are validated by TLC.",
             note="Trusted: TLC, harness (dot counting of the input name is done by the harness). Scope: one server and one try so that every rcode is final; HOSTALIASES not exercised.", ref="4/C12"),
 "C20": dict(level="model_checking", tech="TLA+ facet spec Stream.tla + TLC-enumerated chopping patterns (every short-write/would-block script, every chunk size and single split point, batches) on the real library + TLC trace validation",
             text="Inbound: an answer that is complete by byte count and acceptable must be delivered before the processing call returns and never earlier, whatever the chunking; outbound: every frame the virtual server reassembles is well-formed, first transmissions arrive in request order, a partial write keeps write interest and is flushed when the socket is reported writable; a truncated UDP answer continues over TCP unless IGNTC; an empty datagram has no effect. TLC validates every recorded history against the explicit spec.",
             note="Trusted: TLC, harness stream reassembly (length-prefix splitting) and frame decoding (library parser as plumbing).", ref="4/C20"),
 "C13": dict(level="model_checking", tech="TLA+ facet spec Lookup.tla + TLC-enumerated lookup/answer-shape histories on the real library + TLC trace validation",
             text="For getaddrinfo/gethostbyname the result must equal, as a set without duplicates, the (address, TTL, family) triples of the class-IN A/AAAA records of the accepted answers to the request's own queries restricted to the requested family, each with the requested port (or exactly the hosts-file entries / literal / loopback addresses); reverse lookups must ask exactly the reverse-map name and return PTR targets. Every reply carries unique marker addresses; TLC validates every recorded history (CNAME chains, multi-record answers, foreign-class records, sorting on/off, lookup orders b/fb/bf, hosts database) against the explicit spec.",
             note="Trusted: TLC, harness markers. Alias lists of hostent and cname lists of addrinfo are not compared; sortlist not exercised.", ref="4/C13"),
 "C14": dict(level="fault_enumeration", tech="scenario family from GenOom.tla (TLC) x every allocation index failed once on the real library; each run validated by TLC against the life-cycle envelope OomTrace.tla and Sockets.tla; allocation ledger + ASan/LSan",
             text="For each of 21 scenarios (init with options, every request kind to completion, cache hit, reconfiguration, reinit, cancel, TCP, cookies, downgrade, send failure, destroy with pending requests) the number N of library allocations is measured and the scenario is replayed failing exactly the n-th allocation (thorough: every n in 1..N; quick: the first 40 plus a seeded stride); every run must satisfy the TLA+ life-cycle contract (exactly one callback, cancel/destroy complete), leave no allocation behind (ledger, with LeakSanitizer naming the site), keep descriptor hygiene, and afterwards answer a fresh probe request and be destroyed.",
             note="Allocations made by harness plumbing with the library's codec are not counted. Hash-table seeding is made reproducible by hook H6 so that an index names the same allocation in every run.", ref="4/C14"),
}
NA_REASON = "check not built yet in this round (specification planned in DESIGN.md section 4); not claimed until its machinery exists"

def main():
    props = [json.loads(l)["id"] for l in open(os.path.join(ROOT, "properties.jsonl"))]
    extra = {}
    p = os.path.join(ROOT, "tools", "manifest_extra.json")
    if os.path.exists(p):
        extra = json.load(open(p))
    allc = dict(CHECKS); allc.update(extra.get("checks", {}))
    hooks = subprocess.check_output(["git", "-C", "/repo", "log", "--format=%h %s"]).decode().splitlines()
    hook_commits = [l.split()[0] for l in hooks if "verif hooks" in l]
    m = {"version": 1, "setup_cmd": "tools/setup.sh",
         "hooks": {"guard": "CARES_VERIF",
                   "enable": "tools/build_repo.sh configures out-of-tree static clang builds of /repo under /verif/build/{asan,tsan,plain} with -DCARES_VERIF=1; every check runs ninja there first",
                   "baseline_off_cmd": "tools/run_baseline.sh",
                   "source_commits": hook_commits, "add_only": True},
         "engines": [{"name": "cares_sim + Resolver facets", "path": "specs/Resolver harness/sim tools/simlib.py",
                      "serves_properties": [c for c in ["C01","C05","C06","C07","C08","C09","C10","C12","C13","C17","C20"] if c in allc],
                      "kind_free_text": ENGINE}] + extra.get("engines", []),
         "checks": [], "not_applicable": []}
    for pid in props:
        if pid in allc and os.path.exists(os.path.join(ROOT, "checks", pid.lower() + ".py")):
            c = allc[pid]
            m["checks"].append({"property_id": pid, "quick_cmd": "./check %s --tier quick" % pid,
                                "thorough_cmd": "./check %s --tier thorough" % pid,
                                "evidence_file": "evidence/%s.json" % pid,
                                "replay_cmd_template": "./check %s --replay {path}" % pid,
                                "engine": c.get("engine", "cares_sim + Resolver facets"),
                                "level_claimed": {"category": c["level"], "text": c["text"], "design_ref": c.get("ref", "")},
                                "level_note": c["note"], "technique": c["tech"]})
        else:
            m["not_applicable"].append({"property_id": pid, "reason": extra.get("na", {}).get(pid, NA_REASON)})
    json.dump(m, open(os.path.join(ROOT, "MANIFEST.json"), "w"), indent=1)

main()
