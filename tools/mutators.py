"""Trace corruptions for the binding self-tests: each takes the recorded events of one history and returns a
corrupted copy (or None when it does not fit that history).  TLC must reject every corrupted trace."""
import json
from simlib import mut_dup_event, mut_drop_event, mut_edit_event


def _nsrv(evs):
    for e in evs:
        if e["e"] == "init":
            return e["nsrv"]
    return 0


def drop_callback_pair(pred):
    def fn(evs):
        for i, e in enumerate(evs):
            if e["e"] == "cbb" and pred(e):
                for j in range(i + 1, len(evs)):
                    if evs[j]["e"] == "cbe" and evs[j]["t"] == e["t"]:
                        if j != i + 1:
                            break       # nested activity inside the callback: choose another one
                        return evs[:i] + evs[j + 1:]
        return None
    return fn


LIFECYCLE = [
    ("callback_delivered_twice", mut_dup_event(lambda e: e["e"] == "cbb")),
    ("callback_missing_at_destroy", drop_callback_pair(lambda e: e["st"] == "EDESTRUCTION")),
]

SOCKETS = [
    ("close_event_removed", mut_drop_event(lambda e: e["e"] == "sk" and e["op"] == "close")),
    ("io_after_close", mut_edit_event(lambda e: e["e"] == "sk" and e["op"] == "recv", lambda e: e.update(res="after_close"))),
    ("stop_notification_removed", mut_drop_event(lambda e: e["e"] == "ann" and e["r"] == 0 and e["w"] == 0)),
]


def _wrong_server(evs):
    if _nsrv(evs) < 2:
        return None
    for i, e in enumerate(evs):
        if e["e"] == "srv" and e["ok"] == 0:
            e2 = dict(e)
            e2["s"] = e["s"] % _nsrv(evs) + 1
            return evs[:i] + [e2] + evs[i + 1:]
    return None


RETRY = [
    ("extra_transmission", mut_dup_event(lambda e: e["e"] == "sk" and e["op"] == "send" and e["res"] == "ok" and e.get("tcp") == 0 and e.get("srv", 0) > 0)),
    ("failure_of_other_server_notified", _wrong_server),
    ("hint_five_seconds_late", mut_edit_event(lambda e: e["e"] == "hint" and e["us"] > 0, lambda e: e.update(us=e["us"] + 5000000))),
    ("completion_removed", drop_callback_pair(lambda e: e["st"] not in ("ECANCELLED", "EDESTRUCTION"))),
]

ACCEPT = [
    ("foreign_marker_delivered", mut_edit_event(lambda e: e["e"] == "cbb" and e.get("markers"), lambda e: e.update(markers=e["markers"] + [8 * 999]))),
    ("success_credit_duplicated", mut_dup_event(lambda e: e["e"] == "srv" and e["ok"] == 1)),
]


def _cache_hit_ttl(evs):
    for i in range(1, len(evs)):
        e, p = evs[i], evs[i - 1]
        if e["e"] == "cbb" and e.get("rec") == 1 and e.get("ttls") and p["e"] == "call" and p.get("t") == e["t"]:
            e2 = json.loads(json.dumps(e))
            e2["ttls"][0] += 1
            return evs[:i] + [e2] + evs[i + 1:]
    return None


def _cache_hit_when_disabled(evs):
    out = []
    hit = False
    for i in range(len(evs)):
        e = dict(evs[i])
        if e["e"] == "init":
            e["qcache"] = 0
        if i > 0 and e["e"] == "cbb" and e.get("rec") == 1 and evs[i - 1]["e"] == "call" and evs[i - 1].get("t") == e["t"]:
            hit = True
        out.append(e)
    return out if hit else None


QCACHE = [("cached_ttl_one_too_high", _cache_hit_ttl), ("hit_although_cache_disabled", _cache_hit_when_disabled)]


def _second_cookie_changed(evs):
    n = 0
    for i, e in enumerate(evs):
        if e["e"] == "sk" and e["op"] == "send" and e["res"] == "ok" and e.get("frames") and e["frames"][0].get("clen", 0) >= 8:
            n += 1
            if n == 2:
                if evs[i]["frames"][0]["ck"] != [x for x in evs if x["e"] == "sk" and x["op"] == "send" and x.get("frames") and x["frames"][0].get("clen", 0) >= 8][0]["frames"][0]["ck"]:
                    return None
                e2 = json.loads(json.dumps(e))
                e2["frames"][0]["ck"] = "XXXXXXXX"
                return evs[:i] + [e2] + evs[i + 1:]
    return None


def _cookie_on_tcp(evs):
    for i, e in enumerate(evs):
        if e["e"] == "sk" and e["op"] == "send" and e["res"] == "ok" and e.get("frames") and e["frames"][0].get("clen", 0) >= 8:
            e2 = json.loads(json.dumps(e))
            e2["tcp"] = 1
            return evs[:i] + [e2] + evs[i + 1:]
    return None


COOKIE = [("client_cookie_changed", _second_cookie_changed), ("cookie_sent_over_tcp", _cookie_on_tcp)]

STREAM = [
    ("delivery_removed", drop_callback_pair(lambda e: e.get("rec") == 1)),
    ("garbled_frame", mut_edit_event(lambda e: e["e"] == "sk" and e["op"] == "send" and e["res"] == "ok" and e.get("frames"),
                                     lambda e: e["frames"][0].update(bad=1))),
]

SEARCH = [
    ("first_question_renamed", mut_edit_event(lambda e: e["e"] == "sk" and e["op"] == "send" and e["res"] == "ok" and e.get("frames") and e["frames"][0].get("t") == 1,
                                              lambda e: e["frames"][0].update(name="x" + e["frames"][0]["name"]))),
]


def _ai_addr(evs):
    for i, e in enumerate(evs):
        if e["e"] == "cbb" and e.get("ai"):
            e2 = json.loads(json.dumps(e))
            e2["ai"][0]["a"] += 1
            return evs[:i] + [e2] + evs[i + 1:]
    return None


def _ai_dup(evs):
    for i, e in enumerate(evs):
        if e["e"] == "cbb" and e.get("ai"):
            e2 = json.loads(json.dumps(e))
            e2["ai"].append(dict(e2["ai"][0]))
            return evs[:i] + [e2] + evs[i + 1:]
    return None


LOOKUP = [("address_altered", _ai_addr), ("address_duplicated", _ai_dup)]
