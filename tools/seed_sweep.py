#!/usr/bin/env python3
"""usage: tools/seed_sweep.py <seed>:<check>[,<check>...] ...   (e.g. C01r2-a:C01,C06)
Runs each seeded change through the named checks with tools/mutant.sh, reads the label of every reported
violation from its replay file and records the result in seeded/<seed>/meta.json in seeded/<seed>/detected.json
(one entry per check, with exit code and labels); --merge copies these into the meta.json files as "detected_by".  Never touches /repo."""
import json, os, re, subprocess, sys
ROOT = os.path.dirname(os.path.dirname(os.path.abspath(__file__)))


def label_of(replay):
    try:
        j = json.load(open(replay))
    except Exception:
        return "?"
    for k in ("signature", "label"):
        if k in j:
            return j[k]
    return "?"


def main():
    if sys.argv[1:] == ["--merge"]:
        return merge()
    for arg in sys.argv[1:]:
        seed, checks = arg.split(":")
        res = []
        for c in checks.split(","):
            out = subprocess.run([os.path.join(ROOT, "tools", "mutant.sh"), os.path.join(ROOT, "seeded", seed, "patch.diff"), c, "quick"],
                                 stdout=subprocess.PIPE, stderr=subprocess.STDOUT).stdout.decode("utf-8", "replace")
            m = re.search(r"exit=(\d+)", out)
            rc = int(m.group(1)) if m else -1
            labels = sorted({label_of(r) for r in re.findall(r"replay=(\S+)", out)})
            res.append({"check": c, "exit": rc, "caught": rc == 1, "labels": labels,
                        "how": "tools/mutant.sh seeded/%s/patch.diff %s" % (seed, c)})
            print(seed, c, "exit=%d" % rc, labels, flush=True)
        json.dump(res, open(os.path.join(ROOT, "seeded", seed, "detected.json"), "w"), indent=1)


def merge():
    """copy seeded/*/detected.json into the meta.json files (run when nobody else edits them)"""
    sd = os.path.join(ROOT, "seeded")
    for seed in sorted(os.listdir(sd)):
        dp, mp = os.path.join(sd, seed, "detected.json"), os.path.join(sd, seed, "meta.json")
        if os.path.exists(dp) and os.path.exists(mp):
            meta = json.load(open(mp))
            meta["detected_by"] = json.load(open(dp))
            json.dump(meta, open(mp, "w"), indent=1)


main()
