#!/bin/bash
# Configure (once) and build (always) a static sanitizer build of the c-ares tree
# in ${VERIF_REPO:-/repo} with the verification hooks on.
# usage: build_repo.sh asan|tsan|plain      -> prints nothing on success
set -e
FLAVOR=${1:-asan}
REPO=${VERIF_REPO:-/repo}
ROOT=$(cd "$(dirname "$0")/.." && pwd)
if [ "$REPO" = "/repo" ]; then BDIR=$ROOT/build/$FLAVOR; else
  BDIR=${VERIF_BUILD:-$ROOT/build/alt}-$FLAVOR; fi
case $FLAVOR in
  asan)  SAN="-fsanitize=address,undefined -fno-sanitize-recover=undefined -fno-omit-frame-pointer";;
  tsan)  SAN="-fsanitize=thread -fno-omit-frame-pointer";;
  plain) SAN="";;
esac
mkdir -p "$BDIR"
(
  flock 9
  if [ ! -f "$BDIR/build.ninja" ] || ! grep -q "CMAKE_HOME_DIRECTORY:INTERNAL=$REPO\$" "$BDIR/CMakeCache.txt" 2>/dev/null; then
    rm -rf "$BDIR"/CMakeCache.txt "$BDIR"/CMakeFiles
    cmake -G Ninja -S "$REPO" -B "$BDIR" \
      -DCMAKE_C_COMPILER=clang -DCMAKE_CXX_COMPILER=clang++ \
      -DCMAKE_BUILD_TYPE=Debug \
      -DCMAKE_C_FLAGS="-g -O1 -DCARES_VERIF=1 $SAN" \
      -DCARES_STATIC=ON -DCARES_SHARED=OFF -DCARES_BUILD_TOOLS=OFF -DCARES_BUILD_TESTS=OFF \
      -DCARES_INSTALL=OFF > "$BDIR/configure.log" 2>&1 || { cat "$BDIR/configure.log"; exit 2; }
  fi
  ninja -C "$BDIR" > "$BDIR/ninja.log" 2>&1 || { cat "$BDIR/ninja.log"; exit 2; }
) 9> "$BDIR/.lock"
echo "$BDIR"
