#!/usr/bin/env python3
import json,sys
j=json.load(open(sys.argv[1]))
print(j['label'], 'count', j['count'], 'line', j.get('rejected_at_projected_line'))
print(json.dumps(j['history']))
n=int(sys.argv[2]) if len(sys.argv)>2 else 60
for x in j['trace'][-n:]:
    if '"e":"hint"' in x:
        d=json.loads(x); print('  hint now=%s us=%s nq=%s'%(d['now'],d['us'],d['nq'])); continue
    print(' ',x[:260])
