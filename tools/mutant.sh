#!/bin/bash
# usage: tools/mutant.sh <patch.diff> <check-id> [tier]
# Applies the patch to a scratch worktree of /repo (at /tmp/mut/repo, outside /repo and /verif), runs the check
# against it (VERIF_REPO), prints the verdict lines, and restores the worktree.
P=$(readlink -f "$1"); ID=$2; TIER=${3:-quick}
W=/tmp/mut/repo
mkdir -p /tmp/mut
# one mutant run at a time (the scratch worktree and its build directory are shared)
exec 9>/tmp/mut/.lock
flock 9
if [ ! -d $W/.git ] && [ ! -f $W/.git ]; then git -C /repo worktree add -q --detach $W HEAD; fi
git -C $W checkout -q -- . && git -C $W checkout -q --detach $(git -C /repo rev-parse HEAD)
git -C $W apply "$P" || { echo "PATCH DOES NOT APPLY"; exit 3; }
cd /verif
VERIF_REPO=$W VERIF_BUILD=/verif/build/alt ./check $ID --tier $TIER > /tmp/mut/last.log 2>&1
rc=$?
grep -aE "^VIOLATION|^KNOWN-FINDING|^MACHINERY|^--- violation" /tmp/mut/last.log | head -60
echo "exit=$rc"
git -C $W checkout -q -- .
exit 0
