"""Shared machinery for the engine facets (C01, C05-C10, C12, C13, C17, C20):
TLC-generated environment histories -> cares_sim (real library) -> ndjson traces
-> TLC trace validation against a facet specification -> verdicts."""
import hashlib
import json
import os
import re
import time

import vlib

SPECDIR = os.path.join(vlib.ROOT, "specs", "Resolver")


def gen_histories(ctx, module, cfg, out, workers=8, simulate=None, depth=None, timeout=600, prefix="g", cap=None):
    """Run a generator module (EXTENDS EnvGen) and write one history per line to `out`.
    Simulation runs are time-boxed (TLC is stopped after `timeout`) and capped at `cap` histories by a seeded sample."""
    if simulate:
        # Reproducible sampling: TLC's random simulation is deterministic for one worker, a fixed seed and a fixed
        # aril; several such processes with different seeds run side by side and their outputs are concatenated
        # in a fixed order, so the same VERIF_SEED always yields the same histories.
        import concurrent.futures
        par = 8

        def one(i):
            # TLC evaluates the printing invariant on every successor it generates (about 500 lines per trace):
            # simulate/20 traces per process give a few hundred thousand histories in total
            return vlib.tlc(os.path.join(SPECDIR, module), cfg, workers=1, simulate=max(20, simulate // 20), depth=depth,
                            timeout=max(timeout, 900), deadlock=False, seed=ctx.seed * 100 + i, extra=["-aril", "0"], heap="3g")
        with concurrent.futures.ThreadPoolExecutor(max_workers=par) as ex:
            rs = list(ex.map(one, range(par)))
        for x in rs:
            if x.error or x.rc == 124:
                raise vlib.MachineryError("generator %s/%s failed rc=%s\n%s" % (module, cfg, x.rc, x.out[-3000:]))
        r = rs[0]
        r.out = "\n".join(x.out for x in rs)
        r.distinct = sum(x.distinct for x in rs)
        r.generated = sum(x.generated for x in rs)
        r.wall = max(x.wall for x in rs)
    else:
        r = vlib.tlc(os.path.join(SPECDIR, module), cfg, workers=workers, simulate=simulate, depth=depth,
                     timeout=timeout, deadlock=False, seed=None)
        if r.error or r.rc != 0:
            raise vlib.MachineryError("generator %s/%s failed rc=%s\n%s" % (module, cfg, r.rc, r.out[-3000:]))
    seen = set()
    n = 0
    lines = r.out.splitlines()
    if cap is not None:
        import random
        cand = [l for l in lines if l.startswith('"{')]
        if len(cand) > cap:
            random.Random(ctx.seed).shuffle(cand)
            lines = cand[:cap]
    with open(out, "w") as f:
        for line in lines:
            if not line.startswith('"{'):
                continue
            try:
                s = json.loads(line)
            except ValueError:
                continue
            hsh = hashlib.sha1(s.encode()).hexdigest()[:16]
            if hsh in seen:
                continue
            seen.add(hsh)
            j = json.loads(s)
            j["id"] = "%s%d" % (prefix, n)
            f.write(json.dumps(j, separators=(",", ":")) + "\n")
            n += 1
    ctx.notes.setdefault("generators", []).append(
        {"module": module, "cfg": cfg, "histories": n, "tlc_states": r.distinct, "wall_s": round(r.wall, 1),
         "mode": "simulate" if simulate else ("bfs-exhaustive" if r.distinct <= (cap or 10**12) else "bfs-enumeration, seeded sample of %d" % cap)})
    ctx.cov["states"] += r.distinct
    ctx.cov["transitions"] += r.generated
    return n


def run_sim(ctx, exe, histories, out, jobs=8, timeout=1200):
    env = {"ASAN_OPTIONS": "detect_leaks=1:abort_on_error=0:exitcode=23", "UBSAN_OPTIONS": "print_stacktrace=1",
           "VERIF_TMP": ctx.out}
    env.update(getattr(ctx, "sim_env", {}))
    rc, o = vlib.sh([exe, "run", histories, out, str(jobs)], timeout=timeout, env=env)
    if rc != 0:
        raise vlib.MachineryError("cares_sim failed rc=%d\n%s" % (rc, o[-3000:]))


def project(trace, out, keep, sk_ops=None):
    """Write the events whose kind is in `keep` (plus reset) to `out`; returns event count."""
    n = 0
    with open(trace) as f, open(out, "w") as g:
        for line in f:
            m = re.match(r'\{"e":"(\w+)"', line)
            if not m:
                continue
            k = m.group(1)
            if k != "reset" and k not in keep:
                continue
            if k == "sk" and sk_ops is not None:
                mm = re.match(r'\{"e":"sk","op":"(\w+)"', line)
                if mm and mm.group(1) not in sk_ops:
                    continue
            g.write(line)
            n += 1
        g.write('{"e":"reset","id":"__end__"}\n')
    return n + 1


def _validate_one(tracespec, cfg, tracefile, timeout, heap):
    r = vlib.tlc(os.path.join(SPECDIR, tracespec), cfg, workers=1, timeout=timeout, deadlock=False,
                 env={"TRACE": tracefile}, heap=heap)
    if r.error or r.rc != 0:
        raise vlib.MachineryError("trace validation %s failed rc=%s\n%s" % (tracespec, r.rc, r.out[-4000:]))
    verdicts = {}
    for line in r.out.splitlines():
        if not line.startswith('"{'):
            continue
        try:
            v = json.loads(json.loads(line))
        except ValueError:
            continue
        if "verdict" not in v:
            continue
        old = verdicts.get(v["id"])
        # a history is accepted if ANY branch of the trace spec accepts it
        if old is None or (old["verdict"] == "REJ" and v["verdict"] == "ACC"):
            verdicts[v["id"]] = v
    return verdicts, r.distinct, r.generated


def validate(ctx, tracespec, cfg, tracefile, timeout=1800, heap="4g", par=8, chunk_lines=150000):
    """Run a facet trace specification over a (projected) trace file; returns {id: verdict-dict}.
    Large files are split at history boundaries and validated by several TLC processes in parallel."""
    import concurrent.futures
    # split at history boundaries into parts of about chunk_lines lines, streaming (traces can be many GB)
    files = []
    g = None
    n = 0
    with open(tracefile) as f:
        for line in f:
            if g is None or (n >= chunk_lines and line.startswith('{"e":"reset"')):
                if g is not None:
                    g.write('{"e":"reset","id":"__end__"}\n')
                    g.close()
                pth = "%s.part%d" % (tracefile, len(files))
                files.append(pth)
                g = open(pth, "w")
                n = 0
            g.write(line)
            n += 1
    if g is not None:
        if n and not line.startswith('{"e":"reset","id":"__end__"'):
            g.write('{"e":"reset","id":"__end__"}\n')
        g.close()
    if len(files) == 1:
        os.unlink(files[0])
        parts = [tracefile]
    else:
        parts = files
    verdicts = {}
    with concurrent.futures.ThreadPoolExecutor(max_workers=par) as ex:
        futs = [ex.submit(_validate_one, tracespec, cfg, p, timeout, heap) for p in parts]
        for fu in futs:
            v, d, g = fu.result()
            verdicts.update(v)
            ctx.cov["states"] += d
            ctx.cov["transitions"] += g
    if len(parts) > 1:
        for p in parts:
            os.unlink(p)
    return verdicts


def load_histories(path):
    d = {}
    with open(path) as f:
        for line in f:
            if line.strip():
                j = json.loads(line)
                d[j["id"]] = line.strip()
    return d


def trace_of(tracefile, hid):
    out = []
    on = False
    with open(tracefile) as f:
        for line in f:
            if line.startswith('{"e":"reset"'):
                on = ('"id":"%s"' % hid) in line
            if on:
                out.append(line.rstrip("\n"))
    return out


def campaign(ctx, exe, name, histories, facets, jobs=8, confirm=True, labels=None):
    """Run histories through the real library and validate the trace against each facet.

    facets: list of (tracespec, cfg, keep_event_kinds, sk_ops or None).
    Returns (n_histories, n_accepted).  Rejections are confirmed by re-running the single history
    and then reported through ctx.violation(label, ...)."""
    trace = os.path.join(ctx.out, name + ".trace.ndjson")
    t0 = time.time()
    run_sim(ctx, exe, histories, trace, jobs=jobs)
    t1 = time.time()
    hist = load_histories(histories)
    rejected = {}
    nev = 0
    for (spec, cfg, keep, sk_ops) in facets:
        proj = os.path.join(ctx.out, "%s.%s.ndjson" % (name, spec.replace(".tla", "")))
        nev += project(trace, proj, keep, sk_ops)
        verdicts = validate(ctx, spec, cfg, proj)
        missing = [h for h in hist if h not in verdicts]
        if missing:
            raise vlib.MachineryError("no verdict for %d histories (e.g. %s) from %s" % (len(missing), missing[0], spec))
        noos = sum(1 for v in verdicts.values() if v.get("oos"))
        if noos:
            ctx.notes.setdefault("histories_partly_out_of_facet_scope", {})
            ctx.notes["histories_partly_out_of_facet_scope"][name + ":" + spec] = noos
        for hid, v in verdicts.items():
            if v["verdict"] == "REJ" and labels is not None and not v["label"].startswith(tuple(labels)):
                ctx.notes.setdefault("rejections_owned_by_other_properties", {}).setdefault(v["label"], 0)
                ctx.notes["rejections_owned_by_other_properties"][v["label"]] += 1
                smp = ctx.notes.setdefault("foreign_rejection_samples", {})
                if hid in hist and (v["label"] not in smp or len(hist[hid]) < len(smp[v["label"]])):
                    smp[v["label"]] = hist[hid]
                continue
            if v["verdict"] == "REJ" and hid in hist:
                rejected.setdefault(hid, []).append((spec, cfg, keep, sk_ops, v))
        os.unlink(proj)
    t2 = time.time()
    ctx.log("%s: %d histories, sim %.1fs, validation %.1fs (%d projected events), rejected %d" %
            (name, len(hist), t1 - t0, t2 - t1, nev, len(rejected)))
    fr = ctx.notes.get("rejections_owned_by_other_properties")
    if fr:
        # judged no further by this check; the owning property's check reports them (it must run the same family)
        ctx.log("note: rejections with labels of other properties so far: %s" % fr)
    # confirm + report (group by label so that one defect is not reported 10^3 times)
    bylabel = {}
    for hid, lst in rejected.items():
        for (spec, cfg, keep, sk_ops, v) in lst:
            bylabel.setdefault(v["label"], []).append((hid, spec, cfg, keep, sk_ops, v))
    for label, items in sorted(bylabel.items()):
        items.sort(key=lambda it: (len(hist[it[0]]), it[0]))
        hid, spec, cfg, keep, sk_ops, v = items[0]   # shortest history exhibiting this label
        ok = True
        if confirm:
            ok = confirm_one(ctx, exe, hist[hid], spec, cfg, keep, sk_ops, label)
        if not ok:
            raise vlib.MachineryError("rejection %s of history %s did not reproduce" % (label, hid))
        tr = trace_of(trace, hid)
        replay = json.dumps({"property": ctx.pid, "label": label, "facet": spec, "count": len(items),
                             "history": json.loads(hist[hid]), "rejected_at_projected_line": v["line"],
                             "trace": tr[-80:]}, indent=1)
        ctx.violation(label, "%s: %d histories rejected by %s with label %s; shortest: %s" %
                      (name, len(items), spec, label, hist[hid]), replay_content=replay)
    ctx.cov["traces_validated_against_impl"] += len(hist) - len(rejected)
    ctx.cov["evaluations"] += len(hist)
    return len(hist), len(hist) - len(rejected)


def confirm_one(ctx, exe, history_line, spec, cfg, keep, sk_ops, label):
    d = os.path.join(ctx.out, "confirm")
    os.makedirs(d, exist_ok=True)
    hp = os.path.join(d, "h.ndjson")
    with open(hp, "w") as f:
        f.write(history_line + "\n")
    tp = os.path.join(d, "t.ndjson")
    run_sim(ctx, exe, hp, tp, jobs=1)
    pp = os.path.join(d, "p.ndjson")
    project(tp, pp, keep, sk_ops)
    v = validate(ctx, spec, cfg, pp)
    hid = json.loads(history_line)["id"]
    return hid in v and v[hid]["verdict"] == "REJ" and v[hid]["label"] == label


def count_nontrivial(histories, trace):
    """distinct histories (by content hash) whose execution transmitted at least one query and
    delivered at least one callback."""
    hist = load_histories(histories)
    seen = set()
    for hid, line in hist.items():
        j = json.loads(line)
        j.pop("id", None)
        seen.add(hashlib.sha1(json.dumps(j, sort_keys=True).encode()).hexdigest())
    nontrivial = 0
    cur = None
    sent = cb = False
    with open(trace) as f:
        for line in f:
            if line.startswith('{"e":"reset"'):
                if cur is not None and sent and cb:
                    nontrivial += 1
                cur = line
                sent = cb = False
            elif '"op":"send"' in line:
                sent = True
            elif line.startswith('{"e":"cbb"'):
                cb = True
    if cur is not None and sent and cb:
        nontrivial += 1
    return len(seen), nontrivial


def engine_check(ctx, gens, facets, jobs=12, labels=None, selftests=None):
    """Common body of the engine checks.
    gens: list of dicts {module, cfg, simulate (opt), depth (opt), name}."""
    exe = ctx.build_harness("sim")
    ctx.level = "model_checking"
    if getattr(ctx, "replay", None):
        return replay_one(ctx, exe, facets, labels, jobs)
    tot = 0
    only = os.environ.get("VERIF_GENS")        # development aid: run only the named generators (not used by MANIFEST commands)
    if only:
        gens = [g for g in gens if g["name"] in only.split(",")] or gens[:1]
        selftests = None
    for g in gens:
        hist = os.path.join(ctx.out, g["name"] + ".ndjson")
        n = gen_histories(ctx, g["module"], g["cfg"], hist, workers=8, simulate=g.get("simulate"),
                          depth=g.get("depth"), prefix=g["name"],
                          timeout=g.get("timeout", 150 if g.get("simulate") else 900),
                          cap=g.get("cap", 250000 if g.get("simulate") else 1200000))
        ctx.log("generator %s/%s: %d histories" % (g["module"], g["cfg"], n))
        if n == 0:
            raise vlib.MachineryError("generator produced no histories")
        campaign(ctx, exe, g["name"], hist, facets, jobs=jobs, labels=labels)
        d, nt = count_nontrivial(hist, os.path.join(ctx.out, g["name"] + ".trace.ndjson"))
        ctx.cov["distinct_nontrivial"] += nt
        tot += n
        with open(hist) as f:
            for i, line in enumerate(f):
                if i % max(1, n // 3) == 0:
                    ctx.sample(json.loads(line), limit=8)
        if selftests and g is gens[0]:
            spec, cfg, keep, sk_ops = facets[0]
            corruption_selftest(ctx, os.path.join(ctx.out, g["name"] + ".trace.ndjson"), spec, cfg, keep, sk_ops, selftests)
        os.unlink(os.path.join(ctx.out, g["name"] + ".trace.ndjson"))
    ctx.cov["rule"] = ("environment histories enumerated (BFS, exhaustive up to the bound) or sampled (-simulate) by TLC from "
                       "EnvGen.tla, each replayed against the real library and its recorded trace validated by TLC against the "
                       "facet specification; distinct by content hash; non-trivial = at least one query transmitted and one "
                       "callback delivered")
    if all(not g.get("simulate") for g in gens):
        ctx.cov["exhaustive"] = True
    return tot


def replay_one(ctx, exe, facets, labels, jobs):
    """./check <ID> --replay <file>: the file is a replay written by a previous run ({"history": {...}, ...}) or a bare
    history ({"cfg":..., "steps":[...]}); it is executed alone against the current tree and judged by every facet."""
    j = json.load(open(ctx.replay))
    h = j.get("history", j)
    h.setdefault("id", "replay")
    hp = os.path.join(ctx.out, "replay.ndjson")
    with open(hp, "w") as f:
        f.write(json.dumps(h, separators=(",", ":")) + "\n")
    campaign(ctx, exe, "replay", hp, facets, jobs=1, labels=labels, confirm=False)
    tr = os.path.join(ctx.out, "replay.trace.ndjson")
    if os.path.exists(tr):
        with open(tr) as f:
            for line in f:
                ctx.log("  " + line.rstrip()[:400])
        os.unlink(tr)
    ctx.cov["rule"] = "one stored history replayed against the current tree and validated by TLC against the facet specification(s)"
    return 1


# ---- binding self-test: a corrupted trace must be rejected -------------------------------------------
def _histories_of(tracefile, limit=400):
    cur = []
    out = []
    with open(tracefile) as f:
        for line in f:
            if line.startswith('{"e":"reset"'):
                if cur:
                    out.append(cur)
                    if len(out) >= limit:
                        break
                cur = [line]
            elif cur:
                cur.append(line)
    if cur and len(out) < limit:
        out.append(cur)
    return out


def corruption_selftest(ctx, tracefile, spec, cfg, keep, sk_ops, mutators):
    """For each (name, fn) in mutators: fn(list of event dicts) -> corrupted list or None.  Applied to the first
    recorded history it fits; TLC must reject the corrupted history (and accept the original)."""
    res = {}
    hs = _histories_of(tracefile)
    for name, fn in mutators:
        done = False
        for h in hs:
            evs = [json.loads(x) for x in h]
            if any(e["e"] == "crash" for e in evs):
                continue
            mut = fn([dict(e) for e in evs])
            if mut is None:
                continue
            d = os.path.join(ctx.out, "selftest")
            os.makedirs(d, exist_ok=True)
            verd = []
            for tag, events in (("orig", evs), ("mut", mut)):
                raw = os.path.join(d, "%s.%s.raw" % (name, tag))
                with open(raw, "w") as g:
                    for e in events:
                        g.write(json.dumps(e, separators=(",", ":")) + "\n")
                proj = raw + ".p"
                project(raw, proj, keep, sk_ops)
                v = validate(ctx, spec, cfg, proj)
                hid = evs[0]["id"]
                verd.append(v.get(hid, {}).get("verdict"))
                if tag == "orig" and v.get(hid, {}).get("oos"):
                    verd[0] = "OOS"   # the facet stopped judging this history: useless for a binding test
            if verd[0] != "ACC":
                continue     # pick another history (this one is not accepted to begin with)
            if verd[1] != "REJ":
                raise vlib.MachineryError("binding self-test %s: corrupted trace was NOT rejected by %s" % (name, spec))
            res[name] = "rejected"
            done = True
            break
        if not done:
            res[name] = "not applicable to the sampled histories"
    ctx.notes.setdefault("corrupted_trace_selftest", {}).update(res)
    return res


def mut_dup_event(kind_pred):
    def fn(evs):
        for i, e in enumerate(evs):
            if kind_pred(e):
                return evs[:i + 1] + [dict(e)] + evs[i + 1:]
        return None
    return fn


def mut_drop_event(kind_pred):
    def fn(evs):
        for i, e in enumerate(evs):
            if kind_pred(e):
                return evs[:i] + evs[i + 1:]
        return None
    return fn


def mut_edit_event(kind_pred, edit):
    def fn(evs):
        for i, e in enumerate(evs):
            if kind_pred(e):
                e2 = json.loads(json.dumps(e))
                if edit(e2) is False:
                    continue
                return evs[:i] + [e2] + evs[i + 1:]
        return None
    return fn
