"""Common machinery for the /verif checks.

A check is a python module checks/<id>.py with run(ctx) -> None.  It uses ctx
to build the current tree, run TLC (model check / generate / validate traces),
run harnesses, record violations and write evidence.
"""
import hashlib
import json
import uuid
import os
import re
import shutil
import subprocess
import sys
import time

ROOT = os.path.dirname(os.path.dirname(os.path.abspath(__file__)))
REPO = os.environ.get("VERIF_REPO", "/repo")
TLA_CP = "/opt/veriftools/tla/tla2tools.jar:/opt/veriftools/tla/CommunityModules-deps.jar"
NCPU = os.cpu_count() or 4


class MachineryError(Exception):
    """Something in the machinery (not the property) failed: exit 2."""


def sh(cmd, timeout=None, cwd=None, env=None, check=False, input=None):
    """Run a command; on timeout the whole process group is killed (grandchildren holding the pipe open
    would otherwise block the read for ever) and 124 is returned."""
    e = dict(os.environ)
    if env:
        e.update(env)
    p = subprocess.Popen(cmd, shell=isinstance(cmd, str), cwd=cwd, env=e, stdin=subprocess.PIPE if input is not None else None,
                         stdout=subprocess.PIPE, stderr=subprocess.STDOUT, start_new_session=True)
    try:
        out, _ = p.communicate(input=input, timeout=timeout)
    except subprocess.TimeoutExpired:
        try:
            os.killpg(p.pid, 9)
        except OSError:
            pass
        try:
            out, _ = p.communicate(timeout=10)
        except subprocess.TimeoutExpired:
            out = b""
        return 124, (out or b"").decode("utf-8", "replace")
    out = out.decode("utf-8", "replace")
    if check and p.returncode != 0:
        raise MachineryError("command failed (%d): %s\n%s" % (p.returncode, cmd, out[-4000:]))
    return p.returncode, out


class TlcResult:
    def __init__(self):
        self.rc = None
        self.out = ""
        self.generated = 0
        self.distinct = 0
        self.depth = 0
        self.violation = None      # name of violated invariant/property or "deadlock"
        self.error = None          # semantic / parse error text
        self.coverage = {}         # action -> (taken, generated)
        self.trace = []            # counterexample states (raw text)
        self.wall = 0.0
        self.printed = []          # lines printed with PrintT that look like JSON


def parse_tlc(out, res):
    m = None
    for m in re.finditer(r"(\d+) states generated, (\d+) distinct states found", out):
        pass
    if m:
        res.generated = int(m.group(1))
        res.distinct = int(m.group(2))
    m = re.search(r"The depth of the complete state graph search is (\d+)", out)
    if m:
        res.depth = int(m.group(1))
    m = re.search(r"Invariant (\S+) is violated", out)
    if m:
        res.violation = m.group(1)
    elif re.search(r"Error: Deadlock reached", out):
        res.violation = "deadlock"
    elif re.search(r"Temporal property (\S+) was violated", out):
        res.violation = re.search(r"Temporal property (\S+) was violated", out).group(1)
    elif re.search(r"Temporal properties were violated", out):
        res.violation = "temporal"
    elif re.search(r"Action property (\S+) is violated", out):
        res.violation = re.search(r"Action property (\S+) is violated", out).group(1)
    elif re.search(r"is violated", out):
        res.violation = "unknown"
    m = re.search(r"Error: (?!Deadlock)(.*)", out)
    if m and res.violation is None and "Parsing or semantic analysis failed" in out or \
            (m and res.violation is None and re.search(r"Error: (The|TLC threw|Evaluating|In evaluation|Attempted|The exception)", out)):
        res.error = out[m.start():m.start() + 3000]
    for m in re.finditer(r"<(\w+) line \d+, col \d+ to line \d+, col \d+ of module \w+>: (\d+):(\d+)", out):
        res.coverage[m.group(1)] = (int(m.group(2)), int(m.group(3)))
    return res


def tlc(spec, cfg, workers=None, simulate=None, depth=None, timeout=600, env=None,
        deadlock=True, coverage=False, jvm=None, dfs=False, metaroot=None, extra=None,
        seed=None, heap="8g"):
    """Run TLC on specs/<spec>.tla with config <cfg>.  Returns TlcResult."""
    specdir = os.path.dirname(os.path.abspath(spec))
    base = os.path.basename(spec)
    meta = os.path.join(metaroot or os.path.join(ROOT, "build", "tlc"),
                        "%s-%d-%s" % (os.path.basename(cfg), os.getpid(), uuid.uuid4().hex[:12]))
    os.makedirs(meta, exist_ok=True)
    cmd = ["java", "-XX:+UseParallelGC", "-Xmx" + heap, "-Xss16m"]
    if dfs:
        cmd.append("-Dtlc2.tool.queue.IStateQueue=StateDeque")
    if jvm:
        cmd += jvm
    cmd += ["-cp", TLA_CP, "tlc2.TLC", "-metadir", meta, "-config", cfg,
            "-workers", str(workers or "auto"), "-noGenerateSpecTE"]
    if not deadlock:
        cmd.append("-deadlock")
    if coverage:
        cmd += ["-coverage", "1"]
    if simulate:
        cmd += ["-simulate", "num=%d" % simulate]
        if depth:
            cmd += ["-depth", str(depth)]
        if seed is not None:
            cmd += ["-seed", str(seed)]
    if extra:
        cmd += extra
    cmd.append(base)
    t0 = time.time()
    rc, out = sh(cmd, timeout=timeout, cwd=specdir, env=env)
    res = TlcResult()
    res.rc = rc
    res.out = out
    res.wall = time.time() - t0
    parse_tlc(out, res)
    shutil.rmtree(meta, ignore_errors=True)
    return res


class Ctx:
    def __init__(self, pid, tier, seed, replay=None):
        self.pid = pid
        self.tier = tier
        self.seed = seed
        self.replay = replay
        self.t0 = time.time()
        self.violations = []      # (signature, replay_path, text)
        self.known_hits = []
        self.cov = {"states": 0, "transitions": 0, "traces_validated_against_impl": 0,
                    "samples": [], "evaluations": 0, "distinct_nontrivial": 0}
        self.assumptions = []
        self.level = "model_checking"
        self.alt = REPO != "/repo"      # running against a scratch copy (mutation self-tests)
        self.out = os.path.join(ROOT, "build", "out", pid + ("-alt" if self.alt else ""))
        shutil.rmtree(self.out, ignore_errors=True)
        os.makedirs(self.out, exist_ok=True)
        self.kf = load_known_findings()
        self.notes = {}

    @property
    def quick(self):
        return self.tier == "quick"

    def log(self, *a):
        print("[%s %6.1fs]" % (self.pid, time.time() - self.t0), *a, flush=True)

    # ---- builds -----------------------------------------------------------
    def build_repo(self, flavor="asan"):
        rc, out = sh([os.path.join(ROOT, "tools", "build_repo.sh"), flavor], timeout=900)
        if rc != 0:
            raise MachineryError("build of %s (%s) failed:\n%s" % (REPO, flavor, out[-6000:]))
        return out.strip().splitlines()[-1]

    def build_harness(self, name, flavor="asan", extra_flags=None):
        """Compile harness/<name>/*.cc (+ *.c) against the current tree."""
        bdir = self.build_repo(flavor)
        srcdir = os.path.join(ROOT, "harness", name)
        srcs = sorted(os.path.join(srcdir, f) for f in os.listdir(srcdir)
                      if f.endswith(".cc") or f.endswith(".c"))
        hdrs = sorted(os.path.join(srcdir, f) for f in os.listdir(srcdir) if f.endswith(".h"))
        exe = os.path.join(bdir, "verif_" + name)
        lib = os.path.join(bdir, "lib", "libcares.a")
        deps = srcs + hdrs + [lib]
        if os.path.exists(exe) and all(os.path.getmtime(exe) >= os.path.getmtime(d) for d in deps):
            return exe
        san = {"asan": "-fsanitize=address,undefined -fno-sanitize-recover=undefined -fno-omit-frame-pointer",
               "tsan": "-fsanitize=thread -fno-omit-frame-pointer", "plain": ""}[flavor]
        inc = "-I%s/include -I%s -I%s/src/lib -I%s/src/lib/include -I%s/harness/common" % (REPO, bdir, REPO, REPO, ROOT)
        objs = []
        cmds = []
        for s in srcs:
            o = os.path.join(bdir, "verif_%s_%s.o" % (name, os.path.basename(s)))
            objs.append(o)
            cc = "clang++ -std=c++17" if s.endswith(".cc") else "clang"
            cmds.append("%s -g -O1 -Wno-deprecated-declarations -DCARES_VERIF=1 -DHAVE_CONFIG_H=1 -DCARES_STATICLIB -DCARES_BUILDING_LIBRARY %s %s %s -c %s -o %s" %
                        (cc, san, inc, extra_flags or "", s, o))
        procs = [subprocess.Popen(c, shell=True, stdout=subprocess.PIPE, stderr=subprocess.STDOUT) for c in cmds]
        for p, c in zip(procs, cmds):
            out = p.communicate()[0].decode("utf-8", "replace")
            if p.returncode != 0:
                raise MachineryError("harness compile failed: %s\n%s" % (c, out[-6000:]))
        rc, out = sh("clang++ %s %s %s -lpthread -o %s" % (san, " ".join(objs), lib, exe))
        if rc != 0:
            raise MachineryError("harness link failed:\n%s" % out[-6000:])
        return exe

    # ---- TLC --------------------------------------------------------------
    def model_check(self, spec, cfg, **kw):
        """Exhaustive / simulation run whose verdict must be 'no violation'."""
        r = tlc(os.path.join(ROOT, "specs", spec), cfg, **kw)
        if r.error or (r.rc not in (0,) and r.violation is None):
            raise MachineryError("TLC failed on %s/%s rc=%s:\n%s" % (spec, cfg, r.rc, r.out[-5000:]))
        self.cov["states"] += r.distinct
        self.cov["transitions"] += r.generated
        self.notes.setdefault("tlc_runs", []).append(
            {"spec": spec, "cfg": cfg, "distinct": r.distinct, "generated": r.generated,
             "depth": r.depth, "wall_s": round(r.wall, 1), "violation": r.violation,
             "coverage": {k: list(v) for k, v in r.coverage.items()} if r.coverage else None})
        return r

    # ---- verdicts ---------------------------------------------------------
    def violation(self, signature, text, replay_content=None, replay_path=None):
        """Record a violation; matched against known findings by signature."""
        for k in self.kf.get("known", []):
            if k["property"] == self.pid and re.search(k["signature"], signature):
                if k["id"] not in [h["id"] for h in self.known_hits]:
                    self.known_hits.append(k)
                return False
        if replay_path is None:
            h = hashlib.sha1((signature + (replay_content or text)).encode()).hexdigest()[:12]
            rdir = os.path.join(self.out, "replays") if self.alt else os.path.join(ROOT, "replays")
            os.makedirs(rdir, exist_ok=True)
            replay_path = os.path.join(rdir, "%s-%s.json" % (self.pid, h))
            with open(replay_path, "w") as f:
                f.write(replay_content if replay_content is not None else json.dumps({"signature": signature, "text": text}))
        self.violations.append((signature, replay_path, text))
        return True

    def sample(self, s, limit=6):
        if len(self.cov["samples"]) < limit:
            self.cov["samples"].append(s)

    def finish(self):
        wall = time.time() - self.t0
        ev = {"property_id": self.pid, "tier": self.tier, "seed": self.seed, "level": self.level,
              "coverage": dict(self.cov), "assumptions": self.assumptions, "wall_s": round(wall, 1),
              "violations": len(self.violations)}
        ev["coverage"].update(self.notes)
        ev["coverage"]["known_findings_hit"] = [k["id"] for k in self.known_hits]
        os.makedirs(os.path.join(ROOT, "evidence"), exist_ok=True)
        evpath = os.path.join(self.out, "evidence.json") if self.alt else os.path.join(ROOT, "evidence", self.pid + ".json")
        with open(evpath, "w") as f:
            json.dump(ev, f, indent=1, sort_keys=True)
        for k in self.known_hits:
            print("KNOWN-FINDING: property=%s %s" % (self.pid, k["what"]))
        for sig, path, text in self.violations:
            print("--- violation: %s\n%s" % (sig, text[-3000:]))
        for sig, path, text in self.violations[:20]:
            print("VIOLATION property=%s replay=%s" % (self.pid, path))
        return 1 if self.violations else 0


def load_known_findings():
    kf = {"known": [], "fixed": []}
    paths = [os.path.join(ROOT, "known_findings.json")]
    d = os.path.join(ROOT, "known_findings.d")
    if os.path.isdir(d):
        paths += sorted(os.path.join(d, f) for f in os.listdir(d) if f.endswith(".json"))
    for p in paths:
        if os.path.exists(p):
            j = json.load(open(p))
            kf["known"] += j.get("known", [])
            kf["fixed"] += j.get("fixed", [])
    return kf


def main(argv):
    import argparse
    import importlib
    ap = argparse.ArgumentParser()
    ap.add_argument("pid")
    ap.add_argument("--tier", default=os.environ.get("VERIF_TIER", "quick"))
    ap.add_argument("--replay", default=None)
    a = ap.parse_args(argv)
    seed = int(os.environ.get("VERIF_SEED", "1") or "1")
    sys.path.insert(0, os.path.join(ROOT, "checks"))
    sys.path.insert(0, os.path.join(ROOT, "tools"))
    ctx = Ctx(a.pid, a.tier if a.tier in ("quick", "thorough") else "quick", seed, a.replay)
    try:
        mod = importlib.import_module(a.pid.lower())
        mod.run(ctx)
        rc = ctx.finish()
    except MachineryError as e:
        print("MACHINERY-ERROR property=%s: %s" % (a.pid, e))
        sys.exit(2)
    sys.exit(rc)
